package main

import (
	"flag"
	"fmt"
	"os"
	"path/filepath"
	"strings"
	"time"

	"golang.org/x/tools/go/ssa"
)

func matchAny(name string, pats []string) bool {
	for _, p := range pats {
		if p == name {
			return true
		}
		if ok, _ := filepath.Match(p, name); ok {
			return true
		}
		if strings.HasSuffix(p, "*") && strings.HasPrefix(name, strings.TrimSuffix(p, "*")) {
			return true
		}
	}
	return false
}

func main() {
	if len(os.Args) < 2 {
		fmt.Println("usage: hv dump|verify|check ...")
		os.Exit(2)
	}
	defer cleanupScratch()
	switch os.Args[1] {
	case "dump":
		e, err := LoadEngine(repoDir(), "/verif/contracts/trusted")
		if err != nil {
			fmt.Println(err)
			os.Exit(2)
		}
		for _, fn := range e.fnList {
			if matchAny(pkgShort(fn.Pkg.Pkg)+"."+relName(fn), os.Args[2:]) {
				fn.WriteTo(os.Stdout)
			}
		}
	case "list":
		e, err := LoadEngine(repoDir(), "/verif/contracts/trusted")
		if err != nil {
			fmt.Println(err)
			os.Exit(2)
		}
		for _, fn := range e.fnList {
			fmt.Println(pkgShort(fn.Pkg.Pkg) + "." + relName(fn))
		}
	case "check":
		if len(os.Args) < 4 {
			fmt.Println("usage: hv check <id> quick|thorough")
			os.Exit(2)
		}
		tier := os.Args[3]
		if t := os.Getenv("VERIF_TIER"); t == "quick" || t == "thorough" {
			tier = t
		}
		seed := 0
		fmt.Sscan(os.Getenv("VERIF_SEED"), &seed)
		vd := os.Getenv("VERIF_DIR")
		if vd == "" {
			vd = "/verif"
		}
		code := RunCheck(os.Args[2], tier, seed, vd)
		cleanupScratch()
		os.Exit(code)
	case "replay":
		if len(os.Args) < 3 {
			fmt.Println("usage: hv replay <file>")
			os.Exit(2)
		}
		os.Exit(ReplayFile(repoDir(), os.Args[2]))
	case "lock":
		vd := os.Getenv("VERIF_DIR")
		if vd == "" {
			vd = "/verif"
		}
		if err := WriteLock(vd, os.Args[2:]); err != nil {
			fmt.Println(err)
			os.Exit(2)
		}
	case "verify":
		fs := flag.NewFlagSet("verify", flag.ExitOnError)
		mode := fs.String("mode", "seq", "seq|mon")
		tmo := fs.Int("t", 20, "timeout per query")
		verbose := fs.Bool("v", false, "verbose")
		keep := fs.String("keep", "", "directory to keep failing queries")
		fs.Parse(os.Args[2:])
		t0 := time.Now()
		e, err := LoadEngine(repoDir(), "/verif/contracts/trusted")
		if err != nil {
			fmt.Println(err)
			os.Exit(2)
		}
		fmt.Printf("loaded in %.1fs\n", time.Since(t0).Seconds())
		var fns []*ssa.Function
		for _, fn := range e.fnList {
			if matchAny(pkgShort(fn.Pkg.Pkg)+"."+relName(fn), fs.Args()) {
				fns = append(fns, fn)
			}
		}
		bad := 0
		for _, fn := range fns {
			rep := e.VerifyFunc(fn, *mode)
			res := Discharge(append(rep.Obs, rep.Vacuity...), runOpts{timeoutS: *tmo, workers: 16})
			fmt.Printf("== %s mode=%s paths=%d obligations=%d aborted=%q\n", rep.Func, rep.Mode, rep.Paths, len(res), rep.Aborted)
			if os.Getenv("HV_NOTES") != "" {
				for _, n := range rep.Notes {
					fmt.Println("   note:", n)
				}
				fmt.Println("   inlined:", rep.Inlined)
				fmt.Println("   unverified contracts used:", rep.Unverified)
			}
			for _, r := range res {
				if r.Status != "discharged" || *verbose {
					fmt.Printf("   %-11s %-70s %s %.2fs paths=%d  %s\n", r.Status, r.Name, r.Solver, r.TimeS, r.Paths, r.Src)
				}
				if r.Status != "discharged" {
					bad++
					if *keep != "" {
						os.MkdirAll(*keep, 0o755)
						f := filepath.Join(*keep, strings.NewReplacer("/", "_", "*", "", "(", "", ")", "").Replace(r.Name)+".smt2")
						os.WriteFile(f, []byte(prelude+r.Query+"(check-sat)\n(get-model)\n"), 0o644)
						os.WriteFile(f+".out", []byte("path: "+r.FailPath+"\n"+r.Raw), 0o644)
					}
				}
			}
			if *verbose {
				for _, n := range rep.Notes {
					fmt.Println("   note:", n)
				}
				fmt.Println("   inlined:", rep.Inlined, "trusted:", rep.Trusted, "defaults:", rep.Defaults)
			}
		}
		for _, ce := range e.contractErrors {
			fmt.Println("CONTRACT ERROR:", ce)
		}
		fmt.Printf("total %.1fs, %d not discharged\n", time.Since(t0).Seconds(), bad)
	}
}
