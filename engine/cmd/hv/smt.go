package main

import (
	"bytes"
	"context"
	"fmt"
	"os"
	"os/exec"
	"strings"
	"sync"
	"time"
)

const prelude = `(define-fun TZERO () Int (- 4611686018427387904))
(define-fun wrapS ((x Int) (h Int) (m Int)) Int (ite (and (<= (- h) x) (< x h)) x (- (mod (+ x h) m) h)))
(define-fun wrapU ((x Int) (m Int)) Int (ite (and (<= 0 x) (< x m)) x (mod x m)))
(declare-fun atime (Int) Int)
(declare-fun box_len (Int) Int)
`

type SolveResult struct {
	Status string // unsat | sat | unknown | timeout | error
	Solver string
	Time   float64
	Model  string
	Raw    string
}

type solverSpec struct {
	name string
	cmd  func(file string, timeoutS int) []string
	pre  string
}

var solvers = []solverSpec{
	{"z3-5.1.0", func(f string, t int) []string { return []string{"z3-new", fmt.Sprintf("-T:%d", t), f} }, ""},
	{"cvc5-1.0", func(f string, t int) []string {
		return []string{"cvc5", "--produce-models", fmt.Sprintf("--tlimit=%d", t*1000), f}
	}, "(set-logic ALL)\n"},
	{"z3-4.8.12", func(f string, t int) []string { return []string{"z3", fmt.Sprintf("-T:%d", t), f} }, ""},
}

var scratchDir string
var scratchMu sync.Mutex
var scratchN int

func scratchFile() string {
	scratchMu.Lock()
	defer scratchMu.Unlock()
	if scratchDir == "" {
		d, err := os.MkdirTemp("", "hv-smt-")
		if err != nil {
			panic(err)
		}
		scratchDir = d
	}
	scratchN++
	return fmt.Sprintf("%s/q%06d.smt2", scratchDir, scratchN)
}

func cleanupScratch() {
	if scratchDir != "" {
		os.RemoveAll(scratchDir)
	}
}

func runOne(sp solverSpec, body string, timeoutS int, wantModel bool) SolveResult {
	f := scratchFile()
	q := sp.pre + prelude + body + "(check-sat)\n"
	if wantModel {
		q += "(get-model)\n"
	}
	os.WriteFile(f, []byte(q), 0o644)
	defer os.Remove(f)
	ctx, cancel := context.WithTimeout(context.Background(), time.Duration(timeoutS+2)*time.Second)
	defer cancel()
	args := sp.cmd(f, timeoutS)
	t0 := time.Now()
	cmd := exec.CommandContext(ctx, args[0], args[1:]...)
	var out bytes.Buffer
	cmd.Stdout = &out
	cmd.Stderr = &out
	cmd.Run()
	el := time.Since(t0).Seconds()
	s := out.String()
	first := strings.TrimSpace(strings.SplitN(s, "\n", 2)[0])
	r := SolveResult{Solver: sp.name, Time: el, Raw: s}
	switch {
	case first == "unsat":
		r.Status = "unsat"
	case first == "sat":
		r.Status = "sat"
		if i := strings.Index(s, "\n"); i >= 0 {
			r.Model = s[i+1:]
		}
	case first == "unknown":
		r.Status = "unknown"
	case first == "timeout" || ctx.Err() != nil || strings.Contains(s, "interrupted by timeout"):
		r.Status = "timeout"
	default:
		r.Status = "error"
	}
	return r
}

// solve: z3-new first with a short budget; on anything indefinite race all three.
func solve(body string, timeoutS int, all bool) (SolveResult, []SolveResult) {
	var tried []SolveResult
	if !all {
		quick := 3
		if timeoutS < quick {
			quick = timeoutS
		}
		r := runOne(solvers[0], body, quick, true)
		tried = append(tried, r)
		if r.Status == "unsat" || r.Status == "sat" {
			return r, tried
		}
	}
	ch := make(chan SolveResult, len(solvers))
	for _, sp := range solvers {
		go func(sp solverSpec) { ch <- runOne(sp, body, timeoutS, true) }(sp)
	}
	var best SolveResult
	got := false
	for range solvers {
		r := <-ch
		tried = append(tried, r)
		if all {
			continue
		}
		if (r.Status == "unsat" || r.Status == "sat") && !got {
			best = r
			got = true
			if !all {
				// let the others finish in background; their temp files are removed by their goroutines
				go func(n int) {
					for i := 0; i < n; i++ {
						<-ch
					}
				}(len(solvers) - len(tried) + 0)
				return best, tried
			}
		}
	}
	if all {
		// thorough agreement mode: prefer unsat if any; report disagreement upstream
		for _, r := range tried {
			if r.Status == "unsat" {
				return r, tried
			}
		}
		for _, r := range tried {
			if r.Status == "sat" {
				return r, tried
			}
		}
	}
	if got {
		return best, tried
	}
	// indefinite: report the most informative
	for _, r := range tried {
		if r.Status == "unknown" {
			return r, tried
		}
	}
	return tried[len(tried)-1], tried
}
