package main

import (
	"fmt"
	"go/token"
	"go/types"
	"strings"

	"golang.org/x/tools/go/ssa"
)

func (c *FnCtx) loopContract(fn *ssa.Function, li *loopInfoT) *LoopContract {
	if fn.Pkg == nil {
		return nil
	}
	return c.eng.cs.Loops[fmt.Sprintf("%s|%s#%d", pkgDirOf(fn.Pkg.Pkg), relName(fn), li.ordinal)]
}

// frameEnv: names visible to loop invariants / ghost code inside a frame.
func (c *FnCtx) frameEnv(p *Path, fr *frame, at *ssa.BasicBlock) map[string]Val {
	env := map[string]Val{}
	for _, prm := range fr.fn.Params {
		if v, ok := fr.regs[prm]; ok {
			env[prm.Name()] = v
		}
	}
	for _, fv := range fr.fn.FreeVars {
		if v, ok := fr.regs[fv]; ok {
			if pt, isPtr := fv.Type().Underlying().(*types.Pointer); isPtr {
				lv := c.load(p, &p.heap, v, pt.Elem())
				lv.Origin = fv.Name()
				env[fv.Name()] = lv
			}
		}
	}
	// source variables: latest value seen on this path (DebugRef), phis by their comment
	for k, v := range fr.regsByName() {
		env[k] = v
	}
	if at != nil {
		for _, ins := range at.Instrs {
			ph, ok := ins.(*ssa.Phi)
			if !ok {
				break
			}
			if ph.Comment != "" {
				if v, ok := fr.regs[ph]; ok {
					env[ph.Comment] = v
				}
			}
			if ph.Comment == "rangeindex" {
				// "ranged": the slice a range loop iterates over (it has no source name when it is a call result)
				for _, ref := range *ph.Referrers() {
					bo, ok := ref.(*ssa.BinOp)
					if !ok {
						continue
					}
					for _, r2 := range *bo.Referrers() {
						if ia, ok := r2.(*ssa.IndexAddr); ok {
							if v, ok := fr.regs[ia.X]; ok {
								env["ranged"] = v
							}
						}
					}
				}
			}
		}
	}
	// a counting loop `for i := 0; i < len(x); i++` is the same traversal as `for _, v := range x`: contracts
	// written for the range form (rangeindex = index of the last completed iteration, ranged = x) keep binding
	// when the loop is rewritten in the index form, with rangeindex = i - 1
	if at != nil {
		if _, has := env["rangeindex"]; !has {
			if iv, x := countingLoop(at); iv != nil {
				if v, ok := fr.regs[iv]; ok && v.K == KInt {
					ri := v
					ri.T = "(- " + v.T + " 1)"
					env["rangeindex"] = ri
					if xv, ok := fr.regs[x]; ok {
						if _, dup := env["ranged"]; !dup {
							env["ranged"] = xv
						}
					}
				}
			}
		}
	}
	c.eng.aliasEnv(fr.fn, env)
	return env
}

func (fr *frame) regsByName() map[string]Val {
	out := map[string]Val{}
	for v, val := range fr.regs {
		if ph, ok := v.(*ssa.Phi); ok && ph.Comment != "" {
			if _, dup := out[ph.Comment]; !dup {
				out[ph.Comment] = val
			}
		}
	}
	for k, v := range fr.named {
		out[k] = v
	}
	return out
}

// atLoopHead implements the cut at a loop header. Returns true when the path ends here (back edge).
func (c *FnCtx) atLoopHead(p *Path, b *ssa.BasicBlock, li *loopInfoT) bool {
	fr := p.top()
	lc := c.loopContract(fr.fn, li)
	lname := fmt.Sprintf("loop%d", li.ordinal)
	if fr.fn != c.fn {
		lname = fr.fn.Name() + "." + lname
	}
	pkg := pkgOf(fr.fn)
	first := fr.entered[b] == nil
	c.execPhis(p, b)
	evalInv := func(kind string) {
		if lc == nil {
			return
		}
		env := c.frameEnv(p, fr, b)
		ec := &EvalCtx{c: c, p: p, env: env, heap: &p.heap, pkg: pkg}
		if le := fr.entered[b]; le != nil {
			ec.old = &le.oldHeap
		}
		for i, cl := range lc.Invariant {
			if cl.Seq && c.mode != "seq" { // a sequential-only invariant, like a `seq:` postcondition
				continue
			}
			t, _ := c.evalClause(ec, cl, lname+" of "+fr.fn.Name())
			c.oblige(p, kind, lname+"."+clauseLabel(cl, i, "inv"), t, cl.Src, lc.Props)
		}
	}
	if !first {
		evalInv("inv_pres")
		if lc != nil && lc.Decreases != nil {
			env := c.frameEnv(p, fr, b)
			ec := &EvalCtx{c: c, p: p, env: env, heap: &p.heap, pkg: pkg}
			t := ec.eval(lc.Decreases.E).T
			v0 := fr.entered[b].variant
			c.oblige(p, "decreases", lname, fmt.Sprintf("(and (>= %s 0) (< %s %s))", v0, t, v0), lc.Decreases.Src, lc.Props)
		}
		return true
	}
	if lc == nil {
		c.note(fmt.Sprintf("loop #%d of %s has no invariant: loop-modified state is havocked (invariant true)", li.ordinal, relName(fr.fn)))
	}
	evalInv("inv_init")
	// havoc loop-modified state
	for _, ins := range b.Instrs {
		ph, ok := ins.(*ssa.Phi)
		if !ok {
			break
		}
		v := c.symbolic(p, ph.Comment+"_"+ph.Name(), ph.Type())
		if ph.Comment == "rangeindex" {
			// the index of a range loop starts at -1 and only ever grows by one (shape of the SSA lowering)
			p.assume("(>= " + v.T + " (- 1))")
		}
		if iv, _ := countingLoop(b); iv == ph {
			// i = phi(0, i+1) guarded by i < len(x): never negative, never wraps
			p.assume("(>= " + v.T + " 0)")
		}
		fr.regs[ph] = v
	}
	entryHeap := p.heap.clone()
	for _, t := range c.loopModifies(p, fr, li, lc) {
		c.havoc(&p.heap, t.prefix, t.ref)
	}
	c.advanceAlloc(p) // earlier iterations may have allocated
	if len(li.body) > 0 {
		// clock readings inside the loop
		if p.now != "" {
			t := c.fresh("now", "Int")
			p.assume(fmt.Sprintf("(>= %s %s)", t, p.now))
			p.now = t
		}
	}
	le := &loopEntry{oldHeap: entryHeap}
	fr.entered[b] = le
	if lc != nil {
		env := c.frameEnv(p, fr, b)
		ec := &EvalCtx{c: c, p: p, env: env, heap: &p.heap, old: &le.oldHeap, pkg: pkg}
		for _, cl := range lc.Invariant {
			if cl.Seq && c.mode != "seq" {
				continue
			}
			t, ok := c.evalClause(ec, cl, lname)
			if ok {
				p.assume(t)
			}
		}
		if lc.Decreases != nil {
			le.variant = ec.eval(lc.Decreases.E).T
		}
	}
	return false
}

// loopModifies: heap locations possibly written inside the loop (static over-approximation).
func (c *FnCtx) loopModifies(p *Path, fr *frame, li *loopInfoT, lc *LoopContract) []locTarget {
	var out []locTarget
	seen := map[string]bool{}
	add := func(prefix, ref string) {
		k := prefix + "@" + ref
		if !seen[k] {
			seen[k] = true
			out = append(out, locTarget{prefix, ref})
		}
	}
	if lc != nil && len(lc.Modifies) > 0 {
		env := c.frameEnv(p, fr, li.header)
		ec := &EvalCtx{c: c, p: p, env: env, heap: &p.heap, pkg: pkgOf(fr.fn)}
		for _, m := range lc.Modifies {
			for _, t := range c.resolveLoc(p, ec, m) {
				add(t.prefix, t.ref)
			}
		}
		return out
	}
	visited := map[*ssa.Function]bool{}
	var scanFn func(fn *ssa.Function, blocks map[*ssa.BasicBlock]bool, top bool)
	scanFn = func(fn *ssa.Function, blocks map[*ssa.BasicBlock]bool, top bool) {
		for _, b := range fn.Blocks {
			if blocks != nil && !blocks[b] {
				continue
			}
			for _, ins := range b.Instrs {
				switch x := ins.(type) {
				case *ssa.Store:
					prefix, root := staticKey(x.Addr)
					ref := ""
					if al, ok := root.(*ssa.Alloc); ok && top {
						if blocks != nil && blocks[al.Block()] {
							continue // allocated inside the loop: fresh each iteration
						}
						if v, ok := fr.regs[al]; ok {
							ref = v.T
						}
					} else if _, ok := root.(*ssa.Alloc); ok && !top {
						continue
					} else if top {
						ref = invariantRef(fr, root, blocks)
					}
					add(prefix, ref)
				case *ssa.MapUpdate:
					add(typeKey(x.Map.Type().Underlying()), "")
				case ssa.CallInstruction:
					c.callModifies(x.Common(), fn, add, func(g *ssa.Function) {
						if !visited[g] {
							visited[g] = true
							scanFn(g, nil, false)
						}
					})
				}
			}
		}
	}
	c.curLoopFrame = []*frame{fr}
	c.curLoopBlocks = li.body
	scanFn(fr.fn, li.body, true)
	c.curLoopFrame = nil
	return out
}

func (c *FnCtx) callModifies(call *ssa.CallCommon, in *ssa.Function, add func(prefix, ref string), inlineScan func(*ssa.Function)) {
	if b, ok := call.Value.(*ssa.Builtin); ok {
		switch b.Name() {
		case "append", "copy":
			if et := elemTypeOf(call.Args[0].Type()); et != nil {
				add(elemKey(et), "")
			}
		case "delete":
			add(typeKey(call.Args[0].Type().Underlying()), "")
		}
		return
	}
	var fc *FuncContract
	var fn *ssa.Function
	if call.IsInvoke() {
		fc = c.eng.lookupSpec("(" + typeKey(call.Value.Type()) + ")." + call.Method.Name())
		if fc == nil {
			// sealed interface: anything any implementation's contract allows (or everything, if one has none)
			impls := c.eng.implementations(call.Value.Type())
			if len(impls) == 0 {
				return
			}
			for _, impl := range impls {
				m := c.eng.prog.LookupMethod(impl, call.Method.Pkg(), call.Method.Name())
				if m == nil {
					continue
				}
				mfc := c.eng.contractOf(m)
				if mfc == nil || mfc.Inline {
					if c.eng.inlinable(m, c.fn) || (mfc != nil && mfc.Inline) {
						inlineScan(m)
					} else {
						add("*", "")
					}
					continue
				}
				for _, mm := range mfc.Modifies {
					mm = strings.TrimSpace(mm)
					switch {
					case mm == "*":
						add("*", "")
					case strings.HasPrefix(mm, "key:"):
						add(strings.TrimSpace(mm[4:]), "")
					case strings.HasPrefix(mm, "elems(") || strings.HasPrefix(mm, "mapof("):
						inner := mm[6 : len(mm)-1]
						t := c.staticPathType(mfc, m, call, inner)
						if t != nil && strings.HasPrefix(mm, "elems(") && elemTypeOf(t) != nil {
							add(elemKey(elemTypeOf(t)), "")
						} else if mt, ok := typeAsMap(t); ok && strings.HasPrefix(mm, "mapof(") {
							add(typeKey(mt), "")
						} else {
							add("*", "")
						}
					default:
						for _, pre := range c.widenLoc(mfc, m, call, mm) {
							add(pre, "")
						}
					}
				}
			}
			return
		}
	} else if fn = call.StaticCallee(); fn != nil {
		name := fullName(fn)
		switch {
		case strings.HasPrefix(name, "(*sync.Mutex)."), strings.HasPrefix(name, "(*sync.RWMutex)."):
			prefix, _ := staticKey(call.Args[0])
			add(prefix, "")
			if c.mode == "mon" {
				if mon := c.monitorOf(prefix); mon != nil {
					tk := c.eng.qualType(mon.Pkg, mon.Type)
					for _, g := range mon.Guards {
						add(tk+"."+g, "")
					}
				}
			}
			return
		case strings.HasPrefix(name, "sync/atomic."):
			if !strings.HasPrefix(name, "sync/atomic.Load") {
				prefix, root := staticKey(call.Args[0])
				ref := ""
				if in == c.fn && len(c.curLoopFrame) > 0 {
					ref = invariantRef(c.curLoopFrame[0], root, c.curLoopBlocks)
				}
				add(prefix, ref)
			}
			return
		}
		if isHeliosPkg(pkgOf(fn)) {
			fc = c.eng.contractOf(fn)
			if fc == nil || fc.Inline {
				if c.eng.inlinable(fn, c.fn) || (fc != nil && fc.Inline) {
					inlineScan(fn)
				} else {
					add("*", "")
				}
				return
			}
		} else {
			fc = c.eng.lookupSpec(name)
		}
	} else if mc, ok := call.Value.(*ssa.MakeClosure); ok {
		inlineScan(mc.Fn.(*ssa.Function))
		return
	}
	if fc == nil {
		return
	}
	for _, m := range fc.Modifies {
		// object-relative locations are widened to type-level inside loops
		m = strings.TrimSpace(m)
		if m == "*" {
			add("*", "")
			continue
		}
		if strings.HasPrefix(m, "key:") {
			add(strings.TrimSpace(m[4:]), "")
			continue
		}
		if strings.HasPrefix(m, "elems(") || strings.HasPrefix(m, "mapof(") {
			inner := m[6 : len(m)-1]
			t := c.staticPathType(fc, fn, call, inner)
			switch {
			case t == nil:
				add("*", "")
			case strings.HasPrefix(m, "elems(") && elemTypeOf(t) != nil:
				add(elemKey(elemTypeOf(t)), "")
			case strings.HasPrefix(m, "mapof("):
				if mt, ok := t.Underlying().(*types.Map); ok {
					add(typeKey(mt), "")
				} else {
					add("*", "")
				}
			default:
				add("*", "")
			}
			continue
		}
		for _, pre := range c.widenLoc(fc, fn, call, m) {
			add(pre, "")
		}
	}
}

// staticPathType: static type of a dotted path rooted at a callee parameter (nil if it cannot be resolved).
func (c *FnCtx) staticPathType(fc *FuncContract, fn *ssa.Function, call *ssa.CallCommon, path string) types.Type {
	segs := strings.Split(strings.TrimSpace(path), ".")
	var t types.Type
	if fn != nil {
		for _, prm := range fn.Params {
			if prm.Name() == segs[0] {
				t = prm.Type()
			}
		}
		for _, fv := range fn.FreeVars {
			if fv.Name() == segs[0] {
				t = fv.Type().Underlying().(*types.Pointer).Elem()
			}
		}
	}
	if t == nil {
		return nil
	}
	for _, sname := range segs[1:] {
		st := structOf(derefType(t))
		if st == nil {
			return nil
		}
		found := false
		for k := 0; k < st.NumFields(); k++ {
			if st.Field(k).Name() == sname {
				t = st.Field(k).Type()
				found = true
			}
		}
		if !found {
			return nil
		}
	}
	return t
}

// widenLoc: type-level heap prefixes covering a callee's modifies entry (used for loop havoc).
func (c *FnCtx) widenLoc(fc *FuncContract, fn *ssa.Function, call *ssa.CallCommon, m string) []string {
	for _, g := range c.eng.cs.GVars {
		if g.Name == m {
			return []string{"$g:" + m}
		}
	}
	i := strings.LastIndex(m, ".")
	if i < 0 {
		return []string{"*"}
	}
	head, f := m[:i], m[i+1:]
	segs := strings.Split(head, ".")
	var t types.Type
	if fn != nil {
		for _, prm := range fn.Params {
			if prm.Name() == segs[0] {
				t = prm.Type()
			}
		}
		for _, fv := range fn.FreeVars {
			if fv.Name() == segs[0] {
				t = fv.Type().Underlying().(*types.Pointer).Elem()
			}
		}
	} else {
		for k, n := range fc.Params {
			if n != segs[0] {
				continue
			}
			sig := call.Signature()
			if call.IsInvoke() {
				if k == 0 {
					t = call.Value.Type()
				} else if k-1 < sig.Params().Len() {
					t = sig.Params().At(k - 1).Type()
				}
			} else if sig.Recv() != nil {
				if k == 0 {
					t = sig.Recv().Type()
				} else if k-1 < sig.Params().Len() {
					t = sig.Params().At(k - 1).Type()
				}
			} else if k < sig.Params().Len() {
				t = sig.Params().At(k).Type()
			}
		}
	}
	if t == nil {
		// type-level location
		tk := c.eng.qualType(fc.Pkg, head)
		if f == "*" {
			return []string{tk}
		}
		return []string{tk + "." + f, tk + ".$" + f}
	}
	for _, sname := range segs[1:] {
		st := structOf(derefType(t))
		if st == nil {
			return []string{"*"}
		}
		found := false
		for k := 0; k < st.NumFields(); k++ {
			if st.Field(k).Name() == sname {
				t = st.Field(k).Type()
				found = true
			}
		}
		if !found {
			return []string{"*"}
		}
	}
	var tk string
	if kindOf(t) == KIface {
		tk = typeKey(t)
	} else {
		tk = pointeeKey(derefType(t))
	}
	if f == "*" {
		return []string{tk}
	}
	return []string{tk + "." + f, tk + ".$" + f}
}

// staticKey mirrors the executor's heap-key computation from the shape of the address expression.
func staticKey(v ssa.Value) (string, ssa.Value) {
	switch x := v.(type) {
	case *ssa.FieldAddr:
		st := x.X.Type().Underlying().(*types.Pointer).Elem()
		f := structOf(st).Field(x.Field)
		pre, root := staticKey(x.X)
		return pre + "." + f.Name(), root
	case *ssa.IndexAddr:
		if et := elemTypeOf(x.X.Type()); et != nil {
			return elemKey(et), x
		}
	case *ssa.Alloc:
		return pointeeKey(x.Type().Underlying().(*types.Pointer).Elem()), x
	case *ssa.Global:
		return "global:" + pkgShort(x.Pkg.Pkg) + "." + x.Name(), x
	}
	if pt, ok := v.Type().Underlying().(*types.Pointer); ok {
		return pointeeKey(pt.Elem()), v
	}
	return "cell:?", v
}

// invariantRef: when the object an address is rooted at is computed outside the loop, the havoc can be
// restricted to that object.
func invariantRef(fr *frame, root ssa.Value, blocks map[*ssa.BasicBlock]bool) string {
	if _, isIdx := root.(*ssa.IndexAddr); isIdx {
		return ""
	}
	switch r := root.(type) {
	case *ssa.Parameter, *ssa.FreeVar:
		if v, ok := fr.regs[r]; ok && v.K == KPtr && v.Idx == "" {
			return v.T
		}
	case ssa.Instruction:
		if blocks != nil && blocks[r.Block()] {
			return ""
		}
		if v, ok := fr.regs[root]; ok && v.K == KPtr && v.Idx == "" {
			return v.T
		}
	}
	return ""
}

func typeAsMap(t types.Type) (*types.Map, bool) {
	if t == nil {
		return nil, false
	}
	m, ok := t.Underlying().(*types.Map)
	return m, ok
}

// countingLoop recognises a loop header of the shape  i = phi(0, i+1); if i < len(x) {body} else {exit}
// and returns the induction variable and x.
func countingLoop(h *ssa.BasicBlock) (*ssa.Phi, ssa.Value) {
	var cond ssa.Value
	if n := len(h.Instrs); n > 0 {
		if br, ok := h.Instrs[n-1].(*ssa.If); ok {
			cond = br.Cond
		}
	}
	cmp, ok := cond.(*ssa.BinOp)
	if !ok || cmp.Op != token.LSS {
		return nil, nil
	}
	ph, ok := cmp.X.(*ssa.Phi)
	if !ok || ph.Block() != h || len(ph.Edges) != 2 {
		return nil, nil
	}
	zero, step := false, false
	for _, e := range ph.Edges {
		switch x := e.(type) {
		case *ssa.Const:
			if x.Value != nil && x.Value.ExactString() == "0" {
				zero = true
			}
		case *ssa.BinOp:
			if k, isK := x.Y.(*ssa.Const); x.Op == token.ADD && x.X == ph && isK && k.Value != nil && k.Value.ExactString() == "1" {
				step = true
			}
		}
	}
	if !zero || !step {
		return nil, nil
	}
	call, ok := cmp.Y.(*ssa.Call)
	if !ok {
		return nil, nil
	}
	if b, isB := call.Call.Value.(*ssa.Builtin); !isB || b.Name() != "len" || len(call.Call.Args) != 1 {
		return nil, nil
	}
	return ph, call.Call.Args[0]
}
