package main

// TryReplay turns a solver model into a run of the real code. Returns true when the violation was
// reproduced against /repo's working tree.
func TryReplay(e *Engine, r *ObResult, rp map[string]interface{}, verifDir string) bool {
	rp["replay"] = "no replay adapter for this function: the model is recorded, the real code was not run"
	return false
}
