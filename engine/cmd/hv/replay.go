package main

import (
	"context"
	"encoding/json"
	"fmt"
	"go/types"
	"os"
	"os/exec"
	"path/filepath"
	"sort"
	"strconv"
	"strings"
	"time"

	"golang.org/x/tools/go/ssa"
)

// Replay: a solver model of a failed postcondition is turned into a run of the real code.
//
// Reach (stated, not more): obligations of kind `post` proved in seq mode, on named functions and methods
// whose inputs can be rebuilt from scalars: parameters of basic type, and (one level of) pointers to Helios
// structs whose scalar fields (nested value structs included) are set from the model; every other input
// (slices, maps, interfaces, function values, pointers inside structs, opaque library structs such as
// time.Time or sync.Mutex) is left at its zero value. The clause is compiled to Go when it uses only
// parameters, results, fields, literals, arithmetic/comparison/boolean operators, conditionals, old(),
// len/min/max, string helpers and non-recursive predicates over those; heap-, ghost-, clock- and
// quantifier-dependent clauses are not replayable. The test is injected with `go test -overlay` (nothing is
// written into /repo). Only an observed violation of the clause by the real code counts as a reproduction;
// everything else leaves the report at "no-failing-input-found".

type replayInput struct {
	GoLHS  string // Go l-value, e.g. c.Server.Port
	Term   string // SMT term whose model value is wanted
	Sort   string // Int | Bool | String
	GoType string // Go type for the conversion
	Value  string // Go literal (filled from the model)
}

type goEmit struct {
	eng     *Engine
	pkg     *types.Package
	names   map[string]string // contract name -> Go expression
	olds    []string          // hoisted pre-state expressions: old_i := <expr>
	inOld   bool
	imports map[string]bool
	depth   int
}

type notReplayable struct{ why string }

func (g *goEmit) fail(f string, a ...interface{}) string {
	panic(notReplayable{fmt.Sprintf(f, a...)})
}

func substExpr(e Expr, m map[string]Expr) Expr {
	switch n := e.(type) {
	case EIdent:
		if r, ok := m[n.Name]; ok {
			return r
		}
		return n
	case EUn:
		return EUn{Op: n.Op, X: substExpr(n.X, m)}
	case EBin:
		return EBin{Op: n.Op, X: substExpr(n.X, m), Y: substExpr(n.Y, m)}
	case ECond:
		return ECond{C: substExpr(n.C, m), A: substExpr(n.A, m), B: substExpr(n.B, m)}
	case EField:
		return EField{X: substExpr(n.X, m), F: n.F}
	case EIndex:
		return EIndex{X: substExpr(n.X, m), I: substExpr(n.I, m)}
	case ECall:
		args := make([]Expr, len(n.Args))
		for i, a := range n.Args {
			args[i] = substExpr(a, m)
		}
		return ECall{F: n.F, Args: args}
	}
	return e
}

func (g *goEmit) expr(e Expr) string {
	switch n := e.(type) {
	case EIdent:
		if v, ok := g.names[n.Name]; ok {
			return v
		}
		return g.fail("name %s is not an input or result", n.Name)
	case EInt:
		return n.V
	case EStr:
		return strconv.Quote(n.V)
	case EBool:
		return fmt.Sprint(n.V)
	case ENil:
		return "nil"
	case EUn:
		switch n.Op {
		case "!":
			return "(!" + g.expr(n.X) + ")"
		case "-":
			return "(-" + g.expr(n.X) + ")"
		}
		return g.fail("operator %s", n.Op)
	case EBin:
		x, y := g.expr(n.X), g.expr(n.Y)
		switch n.Op {
		case "==>":
			return "(!(" + x + ") || (" + y + "))"
		case "<==>":
			return "((" + x + ") == (" + y + "))"
		case "&&", "||", "==", "!=", "<", "<=", ">", ">=", "+", "-", "*", "/", "%":
			return "(" + x + " " + n.Op + " " + y + ")"
		case "++":
			return "(" + x + " + " + y + ")"
		}
		return g.fail("operator %s", n.Op)
	case ECond:
		return "hvIf(" + g.expr(n.C) + ", " + g.expr(n.A) + ", " + g.expr(n.B) + ")"
	case EField:
		return g.expr(n.X) + "." + n.F
	case EIndex:
		return g.expr(n.X) + "[" + g.expr(n.I) + "]"
	case ECall:
		switch n.F {
		case "old":
			if g.inOld {
				return g.expr(n.Args[0])
			}
			g.inOld = true
			s := g.expr(n.Args[0])
			g.inOld = false
			g.olds = append(g.olds, s)
			return fmt.Sprintf("old_%d", len(g.olds)-1)
		case "len", "min", "max":
			var as []string
			for _, a := range n.Args {
				as = append(as, g.expr(a))
			}
			return n.F + "(" + strings.Join(as, ", ") + ")"
		case "hasPrefix":
			g.imports["strings"] = true
			return "strings.HasPrefix(" + g.expr(n.Args[0]) + ", " + g.expr(n.Args[1]) + ")"
		case "contains":
			g.imports["strings"] = true
			return "strings.Contains(" + g.expr(n.Args[0]) + ", " + g.expr(n.Args[1]) + ")"
		}
		if pd, ok := g.eng.cs.Preds[n.F]; ok && !pd.Rec && pd.Body != nil {
			if len(pd.Params) != len(n.Args) {
				return g.fail("predicate %s arity", n.F)
			}
			g.depth++
			if g.depth > 12 {
				return g.fail("predicate nesting too deep")
			}
			m := map[string]Expr{}
			for i, p := range pd.Params {
				m[p] = n.Args[i]
			}
			s := g.expr(substExpr(pd.Body, m))
			g.depth--
			return s
		}
		return g.fail("%s(...) depends on the heap, ghost state or the clock", n.F)
	case EQuant:
		return g.fail("quantified clause")
	}
	return g.fail("expression form %T", e)
}

// scalarLeaves lists the settable scalar leaves below a Go l-value of type t (value structs are entered,
// references and opaque library types are skipped).
func (g *goEmit) scalarLeaves(lhs string, t types.Type, get func(path string) string, path string, out *[]replayInput, depth int) {
	if depth > 6 {
		return
	}
	switch kindOf(t) {
	case KInt, KBool, KStr:
		srt := map[Kind]string{KInt: "Int", KBool: "Bool", KStr: "String"}[kindOf(t)]
		*out = append(*out, replayInput{GoLHS: lhs, Term: get(path), Sort: srt, GoType: g.typeString(t)})
	case KStruct:
		if isOpaqueExternal(t) {
			return
		}
		st := structOf(t)
		for i := 0; i < st.NumFields(); i++ {
			f := st.Field(i)
			if f.Name() == "_" {
				continue
			}
			if !f.Exported() && f.Pkg() != nil && f.Pkg() != g.pkg {
				continue
			}
			g.scalarLeaves(lhs+"."+f.Name(), f.Type(), get, path+"."+f.Name(), out, depth+1)
		}
	}
}

func (g *goEmit) typeString(t types.Type) string {
	return types.TypeString(t, func(p *types.Package) string {
		if p == g.pkg {
			return ""
		}
		g.imports[p.Path()] = true
		return p.Name()
	})
}

func smtLitToGo(v, sort, goType string) (string, bool) {
	v = strings.TrimSpace(v)
	switch sort {
	case "Bool":
		if v == "true" || v == "false" {
			return v, true
		}
	case "Int":
		neg := false
		if strings.HasPrefix(v, "(-") {
			neg = true
			v = strings.TrimSpace(strings.TrimSuffix(strings.TrimPrefix(v, "(-"), ")"))
		}
		if _, err := strconv.ParseInt(v, 10, 64); err != nil {
			if _, err2 := strconv.ParseUint(v, 10, 64); err2 != nil {
				return "", false
			}
		}
		if neg {
			v = "-" + v
		}
		return goType + "(" + v + ")", true
	case "String":
		if len(v) >= 2 && v[0] == '"' && v[len(v)-1] == '"' {
			s := strings.ReplaceAll(v[1:len(v)-1], `""`, `"`)
			var b strings.Builder
			for i := 0; i < len(s); i++ {
				if strings.HasPrefix(s[i:], `\u{`) {
					if j := strings.IndexByte(s[i:], '}'); j > 0 {
						if cp, err := strconv.ParseInt(s[i+3:i+j], 16, 32); err == nil {
							b.WriteRune(rune(cp))
							i += j
							continue
						}
					}
				}
				b.WriteByte(s[i])
			}
			return goType + "(" + strconv.Quote(b.String()) + ")", true
		}
	}
	return "", false
}

// parseGetValue parses "((n0 v0) (n1 v1) ...)" where names are simple symbols.
func parseGetValue(out string) map[string]string {
	res := map[string]string{}
	i := strings.Index(out, "((")
	if i < 0 {
		return res
	}
	s := out[i+1:]
	for {
		s = strings.TrimLeft(s, " \n\t\r")
		if !strings.HasPrefix(s, "(") {
			break
		}
		depth, inStr, end := 0, false, -1
		for k := 0; k < len(s); k++ {
			ch := s[k]
			if inStr {
				if ch == '"' {
					if k+1 < len(s) && s[k+1] == '"' {
						k++
						continue
					}
					inStr = false
				}
				continue
			}
			switch ch {
			case '"':
				inStr = true
			case '(':
				depth++
			case ')':
				depth--
				if depth == 0 {
					end = k
				}
			}
			if end >= 0 {
				break
			}
		}
		if end < 0 {
			break
		}
		item := s[1:end]
		if sp := strings.IndexAny(item, " \n\t"); sp > 0 {
			res[item[:sp]] = strings.TrimSpace(item[sp+1:])
		}
		s = s[end+1:]
	}
	return res
}

func findClause(fc *FuncContract, obName string) *Clause {
	i := strings.LastIndex(obName, "/post/")
	if i < 0 {
		return nil
	}
	label := obName[i+len("/post/"):]
	for k := range fc.Ensures {
		if clauseLabel(fc.Ensures[k], k, "ensures") == label {
			return &fc.Ensures[k]
		}
	}
	return nil
}

// TryReplay returns true when the violation was reproduced against /repo's working tree.
func TryReplay(e *Engine, r *ObResult, rp map[string]interface{}, verifDir string) (confirmed bool) {
	why := func(s string) bool {
		rp["replay"] = "not replayed: " + s + " (the model is recorded, the real code was not run)"
		return false
	}
	c := r.Ctx
	if c == nil || c.fn == nil || c.fc == nil {
		return why("no function context")
	}
	if r.Kind != "post" || c.mode != "seq" {
		return why("only sequential postconditions are replayed, this is " + r.Kind + " in mode " + c.mode)
	}
	fn := c.fn
	if fn.Parent() != nil || fn.Pkg == nil {
		return why("closures are not replayed")
	}
	cl := findClause(c.fc, r.Name)
	if cl == nil {
		return why("clause not found")
	}
	g := &goEmit{eng: e, pkg: fn.Pkg.Pkg, names: map[string]string{}, imports: map[string]bool{"testing": true, "fmt": true}}
	var inputs []replayInput
	var setup []string
	var args []string
	recv := ""
	defer func() {
		if x := recover(); x != nil {
			nr, ok := x.(notReplayable)
			if !ok {
				panic(x)
			}
			confirmed = why(nr.why)
		}
	}()
	for i, prm := range fn.Params {
		v, ok := c.paramVals[prm.Name()]
		name := fmt.Sprintf("in%d", i)
		if prm.Name() != "" && prm.Name() != "_" {
			g.names[prm.Name()] = name
		}
		t := prm.Type()
		if !ok {
			return why("parameter " + prm.Name() + " has no symbolic value")
		}
		switch {
		case kindOf(t) == KInt || kindOf(t) == KBool || kindOf(t) == KStr:
			setup = append(setup, fmt.Sprintf("var %s %s", name, g.typeString(t)))
			vv := v
			g.scalarLeaves(name, t, func(string) string { return vv.T }, "", &inputs, 0)
		case kindOf(t) == KPtr && structOf(elemTypeOf(t)) != nil && !isOpaqueExternal(elemTypeOf(t)):
			et := elemTypeOf(t)
			setup = append(setup, fmt.Sprintf("%s := new(%s)", name, g.typeString(et)))
			base := pointeeKey(et)
			ptr := v.T
			g.scalarLeaves(name, et, func(path string) string {
				srt := "Int"
				for _, l := range leavesOf(et) {
					if l.Path == path {
						srt = l.Sort
					}
				}
				return fmt.Sprintf("(select %s %s)", c.entryArray(base+path, srt), ptr)
			}, "", &inputs, 0)
		case kindOf(t) == KStruct && !isOpaqueExternal(t):
			setup = append(setup, fmt.Sprintf("var %s %s", name, g.typeString(t)))
			var lt [][2]string
			leafTerms(v, t, "", &lt)
			m := map[string]string{}
			for _, x := range lt {
				m[x[0]] = x[1]
			}
			g.scalarLeaves(name, t, func(path string) string { return m[path] }, "", &inputs, 0)
		default:
			setup = append(setup, fmt.Sprintf("var %s %s // left at its zero value", name, g.typeString(t)))
		}
		if i == 0 && fn.Signature.Recv() != nil {
			recv = name
		} else {
			args = append(args, name)
		}
	}
	// results
	res := fn.Signature.Results()
	var rnames []string
	for i := 0; i < res.Len(); i++ {
		rn := fmt.Sprintf("out%d", i)
		rnames = append(rnames, rn)
		g.names[fmt.Sprintf("result%d", i)] = rn
		if i == 0 {
			g.names["result"] = rn
		}
		if n := res.At(i).Name(); n != "" && n != "_" {
			g.names[n] = rn
		}
		if i < len(c.fc.ResultName) {
			g.names[c.fc.ResultName[i]] = rn
		}
	}
	clause := g.expr(cl.E)
	// model values: name each input term and ask the solver that produced the model again
	if r.Query == "" {
		return why("query text not kept")
	}
	var q strings.Builder
	q.WriteString(r.Query)
	var names []string
	kept := inputs[:0]
	for _, in := range inputs {
		if in.Term == "" {
			continue
		}
		// a field the obligation never mentions is unconstrained: it keeps its zero value
		if i := strings.Index(in.Term, "|H0 "); i >= 0 {
			j := strings.Index(in.Term[i+1:], "|")
			if j > 0 && !strings.Contains(r.Query, "(declare-const "+in.Term[i:i+j+2]+" ") {
				continue
			}
		}
		kept = append(kept, in)
	}
	inputs = kept
	for i, in := range inputs {
		n := fmt.Sprintf("hvIn%d", i)
		names = append(names, n)
		fmt.Fprintf(&q, "(declare-const %s %s)\n(assert (= %s %s))\n", n, in.Sort, n, in.Term)
	}
	body := q.String() + "(check-sat)\n(get-value (" + strings.Join(names, " ") + "))\n"
	var out string
	for _, sp := range solvers {
		if !strings.HasPrefix(r.Solver, sp.name) && r.Solver != "" {
			continue
		}
		out = runRaw(sp, body, 30)
		break
	}
	if !strings.HasPrefix(strings.TrimSpace(out), "sat") {
		out = runRaw(solvers[0], body, 30)
	}
	if !strings.HasPrefix(strings.TrimSpace(out), "sat") {
		return why("the solver did not return values for the inputs")
	}
	vals := parseGetValue(out)
	var assigns []string
	inRec := map[string]string{}
	for i := range inputs {
		lit, ok := smtLitToGo(vals[names[i]], inputs[i].Sort, inputs[i].GoType)
		if !ok {
			continue
		}
		inputs[i].Value = lit
		assigns = append(assigns, fmt.Sprintf("%s = %s", inputs[i].GoLHS, lit))
		inRec[inputs[i].GoLHS] = lit
	}
	// the test
	var b strings.Builder
	pkgName := fn.Pkg.Pkg.Name()
	b.WriteString("package " + pkgName + "\n\nimport (\n")
	var imps []string
	for p := range g.imports {
		imps = append(imps, p)
	}
	sort.Strings(imps)
	for _, p := range imps {
		fmt.Fprintf(&b, "\t%q\n", p)
	}
	b.WriteString(")\n\nfunc hvIf[T any](c bool, a, b T) T {\n\tif c {\n\t\treturn a\n\t}\n\treturn b\n}\n\n")
	b.WriteString("// Replay of a solver counterexample against the real code. Obligation: " + r.Name + "\n// Clause: " + strings.ReplaceAll(cl.Src, "\n", " ") + "\n")
	b.WriteString("func TestHVReplay(t *testing.T) {\n\tdefer func() {\n\t\tif x := recover(); x != nil {\n\t\t\tfmt.Println(\"HV-REPLAY-PANIC\", x)\n\t\t}\n\t}()\n")
	for _, s := range setup {
		b.WriteString("\t" + s + "\n")
	}
	for _, s := range assigns {
		b.WriteString("\t" + s + "\n")
	}
	for i, o := range g.olds {
		fmt.Fprintf(&b, "\told_%d := %s\n", i, o)
	}
	call := fn.Name() + "(" + strings.Join(args, ", ") + ")"
	if recv != "" {
		call = recv + "." + call
	}
	if len(rnames) > 0 {
		b.WriteString("\t" + strings.Join(rnames, ", ") + " := " + call + "\n")
		for _, rn := range rnames {
			b.WriteString("\t_ = " + rn + "\n")
		}
	} else {
		b.WriteString("\t" + call + "\n")
	}
	for i := range fn.Params {
		fmt.Fprintf(&b, "\t_ = in%d\n", i)
	}
	b.WriteString("\tif " + clause + " {\n\t\tfmt.Println(\"HV-REPLAY-HELD\")\n\t} else {\n\t\tfmt.Println(\"HV-REPLAY-VIOLATED\")\n\t}\n}\n")
	src := b.String()
	rel := strings.TrimPrefix(fn.Pkg.Pkg.Path(), heliosPrefix+"/")
	if fn.Pkg.Pkg.Path() == heliosPrefix {
		rel = "."
	}
	rp["replay_test"] = src
	rp["replay_pkg_dir"] = rel
	rp["replay_inputs"] = inRec
	outp, cmd := runReplayTest(e.repo, rel, src)
	rp["replay_cmd"] = cmd
	rp["replay_output"] = outp
	switch {
	case strings.Contains(outp, "HV-REPLAY-VIOLATED"):
		rp["replay"] = "reproduced: the real code, run on the inputs of the solver's counterexample, violates the clause"
		return true
	case strings.Contains(outp, "HV-REPLAY-HELD"):
		rp["replay"] = "not reproduced: on the inputs rebuilt from the model the real code satisfies the clause (inputs outside the replay adapter's reach were left at zero)"
	case strings.Contains(outp, "HV-REPLAY-PANIC"):
		rp["replay"] = "not reproduced: the run panicked on the rebuilt inputs"
	default:
		rp["replay"] = "not reproduced: the replay test did not build or did not finish"
	}
	return false
}

func runRaw(sp solverSpec, body string, timeoutS int) string {
	f := scratchFile()
	os.WriteFile(f, []byte(sp.pre+prelude+body), 0o644)
	defer os.Remove(f)
	ctx, cancel := context.WithTimeout(context.Background(), time.Duration(timeoutS+2)*time.Second)
	defer cancel()
	args := sp.cmd(f, timeoutS)
	out, _ := exec.CommandContext(ctx, args[0], args[1:]...).CombinedOutput()
	if os.Getenv("HV_DEBUG") != "" {
		os.WriteFile("/tmp/hv_replay_query.smt2", []byte(sp.pre+prelude+body), 0o644)
		fmt.Fprintln(os.Stderr, "replay get-value output:", string(out))
	}
	return string(out)
}

// runReplayTest injects src as zz_hv_replay_test.go of package dir rel (overlay; nothing is written to the repo).
func runReplayTest(repo, rel, src string) (string, string) {
	dir, err := os.MkdirTemp("", "hvreplay")
	if err != nil {
		return err.Error(), ""
	}
	defer os.RemoveAll(dir)
	tf := filepath.Join(dir, "zz_hv_replay_test.go")
	os.WriteFile(tf, []byte(src), 0o644)
	ov := map[string]map[string]string{"Replace": {filepath.Join(repo, rel, "zz_hv_replay_test.go"): tf}}
	ob, _ := json.Marshal(ov)
	of := filepath.Join(dir, "overlay.json")
	os.WriteFile(of, ob, 0o644)
	ctx, cancel := context.WithTimeout(context.Background(), 180*time.Second)
	defer cancel()
	args := []string{"test", "-overlay", of, "-vet=off", "-count=1", "-v", "-timeout", "60s", "-run", "^TestHVReplay$", "./" + rel + "/"}
	cmd := exec.CommandContext(ctx, "go", args...)
	cmd.Dir = repo
	cmd.Env = append(os.Environ(), "GOFLAGS=-mod=mod", "GOPROXY=off", "GOSUMDB=off", "GOTOOLCHAIN=local")
	out, _ := cmd.CombinedOutput()
	s := string(out)
	if len(s) > 4000 {
		s = s[:4000]
	}
	return s, "cd " + repo + " && go " + strings.Join(args, " ") + "   (overlay: zz_hv_replay_test.go = the replay_test field of this file)"
}

// ReplayFile re-runs a stored replay (./check --replay <file>).
func ReplayFile(repo, file string) int {
	b, err := os.ReadFile(file)
	if err != nil {
		fmt.Println("cannot read", file, err)
		return 2
	}
	var rp map[string]interface{}
	if err := json.Unmarshal(b, &rp); err != nil {
		fmt.Println("not a replay file:", err)
		return 2
	}
	fmt.Printf("property=%v obligation=%v\nclause: %v\nstatus on the recorded run: %v (%v)\n", rp["property"], rp["obligation"], rp["clause"], rp["status"], rp["reason"])
	src, _ := rp["replay_test"].(string)
	rel, _ := rp["replay_pkg_dir"].(string)
	if src == "" {
		fmt.Printf("no executable replay recorded: %v\nfailing path: %v\n", rp["replay"], rp["path"])
		fmt.Printf("to re-decide the obligation on the current tree run: ./check %v quick\n", rp["property"])
		return 0
	}
	out, cmd := runReplayTest(repo, rel, src)
	fmt.Println(cmd)
	fmt.Println(out)
	if strings.Contains(out, "HV-REPLAY-VIOLATED") {
		fmt.Printf("VIOLATION property=%v replay=%s\n", rp["property"], file)
		return 1
	}
	fmt.Println("the recorded inputs no longer violate the clause on the current tree")
	return 0
}

var _ = ssa.Function{}
