package main

import (
	"fmt"
	"go/ast"
	"go/constant"
	"go/token"
	"go/types"
	"sort"
	"strconv"
	"strings"

	"golang.org/x/tools/go/ssa"
)

// ---------- obligations ----------

type Obligation struct {
	Name    string // <pkg>.<func>/<kind>/<label>
	Kind    string
	Func    string
	Props   []string
	NDecl   int // number of ctx decls visible
	Ctx     *FnCtx
	Assumes []string
	Goal    string
	Path    string
	Only    bool // clause-level property attribution: belongs only to Props
	WantSat bool // vacuity query: must be satisfiable
	Any     bool // vacuity over paths: it is enough that ONE of the queries with this name is satisfiable
	Src     string
}

// ---------- heap view ----------

type lazyH struct {
	id     int
	prefix string
	ref    string // "" = whole array havocked
	idx    string
}

type HeapView struct {
	m    map[string]string
	lazy []lazyH
}

func (h HeapView) clone() HeapView {
	m := make(map[string]string, len(h.m))
	for k, v := range h.m {
		m[k] = v
	}
	return HeapView{m: m, lazy: append([]lazyH(nil), h.lazy...)}
}

func keyMatches(key, prefix string) bool {
	if prefix == "*" {
		return key != "$alloc"
	}
	if key == prefix {
		return true
	}
	if strings.HasPrefix(key, prefix) {
		c := key[len(prefix)]
		return c == '.' || c == '#'
	}
	return false
}

// ---------- per-function verification context ----------

type FnCtx struct {
	eng           *Engine
	fn            *ssa.Function
	fc            *FuncContract
	mode          string
	decls         []string
	declared      map[string]bool
	heapSort      map[string]string
	nfresh        int
	obs           []*Obligation
	notes         map[string]bool
	npaths        int
	inlined       map[string]bool
	trusted       map[string]bool
	defaults      map[string]bool
	label         string // name used in obligation names
	aborted       string
	divw          map[string]string
	entryNow      string
	usedContracts map[string]bool // Helios callee contracts applied -> whether that callee is itself verified for some property
	extraEnv      map[string]Val
	ghostRet      *Val
	curLoopFrame  []*frame
	paramVals     map[string]Val // symbolic entry values of the parameters (replay rebuilds inputs from them)
	curLoopBlocks map[*ssa.BasicBlock]bool
}

func (c *FnCtx) note(s string) { c.notes[s] = true }

func (c *FnCtx) declare(name, sort string) {
	if c.declared[name] {
		return
	}
	c.declared[name] = true
	c.decls = append(c.decls, fmt.Sprintf("(declare-const %s %s)", name, sort))
}

func sym(s string) string {
	s = strings.ReplaceAll(s, "|", "!")
	s = strings.ReplaceAll(s, "\\", "!")
	return "|" + s + "|"
}

func (c *FnCtx) fresh(hint, sort string) string {
	c.nfresh++
	n := sym(fmt.Sprintf("%s~%d", hint, c.nfresh))
	c.declare(n, sort)
	return n
}

func (c *FnCtx) leafSortOf(key, sort string) {
	if old, ok := c.heapSort[key]; ok && old != sort {
		c.note(fmt.Sprintf("heap key %s used at sorts %s and %s", key, old, sort))
	}
	c.heapSort[key] = sort
}

func (c *FnCtx) entryArray(key, sort string) string {
	n := sym("H0 " + key)
	c.declare(n, arraySort(key, sort))
	c.leafSortOf(key, sort)
	return n
}

// heapGet returns the current array term for key, materialising it lazily.
func (c *FnCtx) heapGet(h *HeapView, key, sort string) string {
	if a, ok := h.m[key]; ok {
		return a
	}
	a := c.entryArray(key, sort)
	for _, l := range h.lazy {
		if !keyMatches(key, l.prefix) {
			continue
		}
		// the symbol is a function of (havoc event, key) so that every copy of the heap view that
		// materialises the key later agrees on it
		nm := sym(fmt.Sprintf("Hl%d %s", l.id, key))
		if l.ref == "" {
			c.declare(nm, arraySort(key, sort))
			a = nm
		} else if strings.HasPrefix(key, "[]") || (strings.HasPrefix(key, "map[") && !strings.HasSuffix(key, "#len")) {
			inner := "(Array Int " + sort + ")"
			if strings.HasPrefix(key, "map[string]") {
				inner = "(Array String " + sort + ")"
			}
			c.declare(nm, inner)
			a = fmt.Sprintf("(store %s %s %s)", a, l.ref, nm)
		} else {
			c.declare(nm, sort)
			a = fmt.Sprintf("(store %s %s %s)", a, l.ref, nm)
		}
	}
	h.m[key] = a
	return a
}

// havoc marks every key under prefix (at object ref, or everywhere if ref=="") as unknown.
func (c *FnCtx) havoc(h *HeapView, prefix, ref string) {
	for _, k := range sortedKeys(h.m) {
		if !keyMatches(k, prefix) {
			continue
		}
		srt := c.heapSort[k]
		if ref == "" {
			h.m[k] = c.fresh("Hh "+k, arraySort(k, srt))
		} else if strings.HasPrefix(k, "[]") || (strings.HasPrefix(k, "map[") && !strings.HasSuffix(k, "#len")) {
			inner := "(Array Int " + srt + ")"
			if strings.HasPrefix(k, "map[string]") {
				inner = "(Array String " + srt + ")"
			}
			h.m[k] = fmt.Sprintf("(store %s %s %s)", h.m[k], ref, c.fresh("Hp "+k, inner))
		} else {
			h.m[k] = fmt.Sprintf("(store %s %s %s)", h.m[k], ref, c.fresh("Hp "+k, srt))
		}
	}
	c.nfresh++
	h.lazy = append(h.lazy, lazyH{id: c.nfresh, prefix: prefix, ref: ref})
}

// ---------- paths and frames ----------

type deferred struct {
	call *ssa.CallCommon
	args []Val
	fnv  Val
	pos  token.Pos
}

type frame struct {
	fn       *ssa.Function
	regs     map[ssa.Value]Val
	defers   []deferred
	prev     *ssa.BasicBlock
	entered  map[*ssa.BasicBlock]*loopEntry
	recov    *Val // value recover() returns in this frame (set while running defers after a panic)
	inlineOf *ssa.CallCommon
	fc       *FuncContract  // contract being verified (top frame only)
	results  []Val          // for named results via recover block
	named    map[string]Val // source variable name -> latest value on this path (from DebugRef)
}

type loopEntry struct {
	variant string
	oldHeap HeapView
}

type Path struct {
	frames   []*frame
	heap     HeapView
	assumes  []string
	nonnil   map[string]bool
	inb      map[string]bool
	trace    []string
	now      string            // latest clock reading (Int term)
	ghost    map[string]string // ghost call counters etc: name -> Int term
	held     []string          // textual lock-set trace for notes
	panicked bool
	panicVal *Val
	created  []madeClosure // closures with captured invariants created on this path
	depth    int
	allocs   []string
	dead     bool
	fnret    map[string]Val // last value returned by a call through a function-valued parameter
	lastAcq  *HeapView      // heap right after the latest write-lock acquisition in the function under verification
	bases    []string
	acq      map[string]HeapView // heap at the acquisition of a monitored lock (for two-state guarantees)
}

func (p *Path) top() *frame { return p.frames[len(p.frames)-1] }

func (p *Path) clone() *Path {
	q := &Path{heap: p.heap.clone(), assumes: append([]string(nil), p.assumes...), now: p.now, depth: p.depth,
		panicked: p.panicked, panicVal: p.panicVal, created: append([]madeClosure(nil), p.created...), allocs: append([]string(nil), p.allocs...)}
	q.nonnil = map[string]bool{}
	for k := range p.nonnil {
		q.nonnil[k] = true
	}
	q.inb = map[string]bool{}
	for k := range p.inb {
		q.inb[k] = true
	}
	q.ghost = map[string]string{}
	for k, v := range p.ghost {
		q.ghost[k] = v
	}
	q.trace = append([]string(nil), p.trace...)
	q.bases = append([]string(nil), p.bases...)
	q.lastAcq = p.lastAcq
	q.held = append([]string(nil), p.held...)
	if p.fnret != nil {
		q.fnret = map[string]Val{}
		for k, v := range p.fnret {
			q.fnret[k] = v
		}
	}
	if p.acq != nil {
		q.acq = map[string]HeapView{}
		for k, v := range p.acq {
			q.acq[k] = v
		}
	}
	for _, f := range p.frames {
		g := &frame{fn: f.fn, prev: f.prev, recov: f.recov, inlineOf: f.inlineOf, fc: f.fc}
		g.regs = make(map[ssa.Value]Val, len(f.regs))
		for k, v := range f.regs {
			g.regs[k] = v
		}
		g.named = make(map[string]Val, len(f.named))
		for k, v := range f.named {
			g.named[k] = v
		}
		g.defers = append([]deferred(nil), f.defers...)
		g.entered = map[*ssa.BasicBlock]*loopEntry{}
		for k, v := range f.entered {
			g.entered[k] = v
		}
		q.frames = append(q.frames, g)
	}
	return q
}

func (p *Path) assume(s string) {
	if s == "" || s == "true" {
		return
	}
	p.assumes = append(p.assumes, s)
}

type outcome struct {
	p     *Path
	ret   []Val
	panic bool
}

// ---------- obligations ----------

type madeClosure struct {
	fn    *ssa.Function
	binds []Val
}

func (c *FnCtx) oblige(p *Path, kind, label, goal, src string, props []string) {
	if goal == "true" {
		return
	}
	name := c.label + "/" + kind + "/" + label
	if len(c.obs) > 0 && false {
		return
	}
	c.obs = append(c.obs, &Obligation{Name: name, Kind: kind, Func: c.label, Props: props, NDecl: len(c.decls), Ctx: c,
		Assumes: append([]string(nil), p.assumes...), Goal: goal, Path: strings.Join(p.trace, ">"), Src: src})
}

// ---------- values of SSA operands ----------

func (c *FnCtx) constVal(k *ssa.Const) Val {
	t := k.Type()
	if k.Value == nil {
		return zeroValTyped(t)
	}
	switch kindOf(t) {
	case KBool:
		if constant.BoolVal(k.Value) {
			return Val{K: KBool, T: "true", Typ: t}
		}
		return Val{K: KBool, T: "false", Typ: t}
	case KStr:
		return Val{K: KStr, T: smtStr(constant.StringVal(k.Value)), Typ: t}
	case KInt:
		if k.Value.Kind() == constant.Int {
			return Val{K: KInt, T: smtInt(k.Value.ExactString()), Typ: t}
		}
	}
	return Val{K: KOpaque, T: c.fresh("const", "Int"), Typ: t}
}

func zeroValTyped(t types.Type) Val {
	if b, ok := t.(*types.Basic); ok && b.Kind() == types.UntypedNil {
		return Val{K: KPtr, T: "0", Typ: t}
	}
	return zeroVal(t)
}

func smtInt(s string) string {
	if strings.HasPrefix(s, "-") {
		return "(- " + s[1:] + ")"
	}
	return s
}

func smtStr(s string) string {
	var b strings.Builder
	b.WriteByte('"')
	for _, r := range s {
		switch {
		case r == '"':
			b.WriteString("\"\"")
		case r < 32 || r > 126 || r == '\\':
			fmt.Fprintf(&b, "\\u{%x}", r)
		default:
			b.WriteRune(r)
		}
	}
	b.WriteByte('"')
	return b.String()
}

func (c *FnCtx) val(p *Path, v ssa.Value) Val {
	switch x := v.(type) {
	case *ssa.Const:
		return c.constVal(x)
	case *ssa.Global:
		return Val{K: KPtr, T: "1", Typ: x.Type(), Key: "global:" + pkgShort(x.Pkg.Pkg) + "." + x.Name()}
	case *ssa.Function:
		return Val{K: KFunc, T: c.eng.fnID(x), Typ: x.Type(), Fn: x}
	case *ssa.Builtin:
		return Val{K: KFunc, T: "0", Typ: x.Type()}
	}
	fr := p.top()
	if r, ok := fr.regs[v]; ok {
		return r
	}
	if fv, ok := v.(*ssa.FreeVar); ok {
		// standalone closure: free variable of unknown provenance
		r := c.symbolic(p, fv.Name(), fv.Type())
		r.Origin = fv.Name()
		fr.regs[v] = r
		return r
	}
	c.note(fmt.Sprintf("unbound SSA value %s in %s", v.Name(), fr.fn.Name()))
	r := c.symbolic(p, v.Name(), v.Type())
	fr.regs[v] = r
	return r
}

// symbolic creates a fresh unconstrained value of type t (with integer range facts assumed).
func (c *FnCtx) symbolic(p *Path, hint string, t types.Type) Val {
	v := valFromLeaves(t, func(path, srt string) string { return c.fresh(hint+path, srt) })
	c.assumeRanges(p, v, t)
	return v
}

func (c *FnCtx) assumeRanges(p *Path, v Val, t types.Type) {
	switch kindOf(t) {
	case KInt:
		if f := rangeFact(v.T, t); f != "" {
			p.assume(f)
		}
		if isTime(t) {
			p.assume(fmt.Sprintf("(or (= %s TZERO) (>= %s 0))", v.T, v.T))
		}
	case KSlice:
		p.assume(fmt.Sprintf("(and (<= 0 %s) (<= %s %s) (< %s 4611686018427387904))", v.Len, v.Len, v.Cap, v.Cap))
		p.assume(fmt.Sprintf("(=> (= %s 0) (= %s 0))", v.T, v.Cap))
		p.assume(fmt.Sprintf("(>= %s 0)", v.T))
	case KPtr, KMap:
		p.assume(fmt.Sprintf("(>= %s 0)", v.T))
	case KIface:
		p.assume(fmt.Sprintf("(>= %s 0)", v.T))
		p.assume(fmt.Sprintf("(=> (= %s 0) (and (= %s 0) (= %s \"\")))", v.T, v.IVal, v.IStr))
	case KStruct:
		if isOpaqueExternal(t) {
			return
		}
		s := structOf(t)
		for i := 0; i < s.NumFields(); i++ {
			c.assumeRanges(p, v.Fs[i], s.Field(i).Type())
		}
	case KTuple:
		tp := t.(*types.Tuple)
		for i := 0; i < tp.Len(); i++ {
			c.assumeRanges(p, v.Fs[i], tp.At(i).Type())
		}
	}
}

// ---------- memory ----------

func elemTypeOf(t types.Type) types.Type {
	switch x := t.Underlying().(type) {
	case *types.Pointer:
		return x.Elem()
	case *types.Slice:
		return x.Elem()
	}
	return nil
}

func (c *FnCtx) addrKey(ptr Val) string {
	if ptr.Key != "" {
		return ptr.Key
	}
	if ptr.Typ != nil {
		if e := elemTypeOf(ptr.Typ); e != nil {
			return pointeeKey(e)
		}
	}
	return "cell:?"
}

func (c *FnCtx) sel(h *HeapView, key, srt string, ptr Val) string {
	arr := c.heapGet(h, key, srt)
	if ptr.Idx != "" {
		return fmt.Sprintf("(select (select %s %s) %s)", arr, ptr.T, ptr.Idx)
	}
	return fmt.Sprintf("(select %s %s)", arr, ptr.T)
}

// closedAxiom: the entry heap is closed under allocation, stated once per reference-valued heap key as a
// quantified fact with the load as its pattern (needed when contract clauses read through several pointers).
func (c *FnCtx) closedAxiom(key string) {
	if c.declared["closed:"+key] || strings.HasPrefix(key, "cell:") || strings.HasPrefix(key, "$") {
		return
	}
	c.declared["closed:"+key] = true
	e0 := c.entryArray(key, "Int")
	al := c.allocT0()
	if strings.HasPrefix(key, "[]") || (strings.HasPrefix(key, "map[") && !strings.HasSuffix(key, "#len")) {
		ks := "Int"
		if strings.HasPrefix(key, "map[string]") {
			ks = "String"
		}
		c.decls = append(c.decls, fmt.Sprintf("(assert (forall ((cx Int) (ci %s)) (! (or (<= (select (select %s cx) ci) 1) %s) :pattern ((select (select %s cx) ci)))))", ks, e0, inAl(al, fmt.Sprintf("(select (select %s cx) ci)", e0)), e0))
		return
	}
	c.decls = append(c.decls, fmt.Sprintf("(assert (forall ((cx Int)) (! (or (<= (select %s cx) 1) %s) :pattern ((select %s cx)))))", e0, inAl(al, fmt.Sprintf("(select %s cx)", e0)), e0))
}

func refLeaf(l leaf) bool {
	if l.Sort != "Int" {
		return false
	}
	switch {
	case strings.HasSuffix(l.Path, "#base") || strings.HasSuffix(l.Path, "#ival"):
		return true
	case strings.HasSuffix(l.Path, "#len") || strings.HasSuffix(l.Path, "#cap") || strings.HasSuffix(l.Path, "#tag"):
		return false
	}
	k := kindOf(l.Typ)
	return k == KPtr || k == KMap
}

func (c *FnCtx) load(p *Path, h *HeapView, ptr Val, t types.Type) Val {
	base := c.addrKey(ptr)
	if base != "array" {
		for _, l := range leavesOf(t) {
			if refLeaf(l) {
				c.closedAxiom(base + l.Path)
			}
		}
	}
	v := valFromLeaves(t, func(path, srt string) string { return c.sel(h, base+path, srt, ptr) })
	if v.K == KSlice && h == &p.heap {
		p.noteBase(v.T)
	}
	return v
}

func (p *Path) noteBase(b string) {
	if len(b) > 200 || strings.Contains(b, "|b q_") {
		return // too large, or mentions a bound variable of a quantified contract clause
	}
	for _, x := range p.bases {
		if x == b {
			return
		}
	}
	p.bases = append(p.bases, b)
}

// nameArr: give a long heap array term a name (keeps later terms and quantifier patterns small).
func (c *FnCtx) nameArr(p *Path, h *HeapView, key string) {
	t := h.m[key]
	if len(t) < 160 || h != &p.heap {
		return
	}
	n := c.fresh("A "+key, arraySort(key, c.heapSort[key]))
	p.assume("(= " + n + " " + t + ")")
	h.m[key] = n
}

// rowHint: after a store into backing store `at` of key, spell out read-over-write for the other backing
// stores this path has looked at (valid array-theory facts; they let quantifier instantiation see through stores).
func (c *FnCtx) rowHint(p *Path, key, oldArr, at string) {
	n := 0
	for _, b := range p.bases {
		if b == at || n > 6 {
			continue
		}
		n++
		p.assume(fmt.Sprintf("(=> (not (= %s %s)) (= (select %s %s) (select %s %s)))", b, at, p.heap.m[key], b, oldArr, b))
	}
}

// loadFacts: type-range facts about a loaded value (sound: every stored value had the type).
func (c *FnCtx) loadFacts(p *Path, v Val, t types.Type) {
	c.assumeRanges(p, v, t)
}

// closedFacts: the entry heap is closed — every reference stored in it denotes an object allocated before
// the function was entered (instance of that fact at the location being read).
func (c *FnCtx) closedFacts(p *Path, ptr Val, t types.Type) {
	base := c.addrKey(ptr)
	if strings.HasPrefix(base, "cell:") || base == "array" {
		return
	}
	for _, l := range leavesOf(t) {
		if l.Sort != "Int" {
			continue
		}
		isRef := false
		switch {
		case strings.HasSuffix(l.Path, "#base") || strings.HasSuffix(l.Path, "#ival"):
			isRef = true
		case strings.HasSuffix(l.Path, "#len") || strings.HasSuffix(l.Path, "#cap") || strings.HasSuffix(l.Path, "#tag"):
		default:
			k := kindOf(l.Typ)
			isRef = k == KPtr || k == KMap
		}
		if !isRef {
			continue
		}
		key := base + l.Path
		k2 := key + "@" + ptr.T + "@" + ptr.Idx
		if p.inb["closed:"+k2] {
			continue
		}
		p.inb["closed:"+k2] = true
		e0 := c.entryArray(key, "Int")
		var t0 string
		if ptr.Idx != "" {
			t0 = fmt.Sprintf("(select (select %s %s) %s)", e0, ptr.T, ptr.Idx)
		} else {
			t0 = fmt.Sprintf("(select %s %s)", e0, ptr.T)
		}
		p.assume(fmt.Sprintf("(or (<= %s 1) %s)", t0, inAl(c.allocT0(), t0)))
	}
}

func (c *FnCtx) store(p *Path, h *HeapView, ptr Val, v Val, t types.Type) {
	base := c.addrKey(ptr)
	var lt [][2]string
	leafTerms(v, t, "", &lt)
	ls := leavesOf(t)
	for i, l := range ls {
		if i >= len(lt) {
			break
		}
		key := base + l.Path
		arr := c.heapGet(h, key, l.Sort)
		if ptr.Idx != "" {
			h.m[key] = fmt.Sprintf("(store %s %s (store (select %s %s) %s %s))", arr, ptr.T, arr, ptr.T, ptr.Idx, lt[i][1])
			if h == &p.heap && strings.HasPrefix(key, "[]") {
				c.nameArr(p, h, key)
				c.rowHint(p, key, arr, ptr.T)
			}
		} else {
			h.m[key] = fmt.Sprintf("(store %s %s %s)", arr, ptr.T, lt[i][1])
			c.nameArr(p, h, key)
		}
	}
}

func (c *FnCtx) checkNonNil(p *Path, ref string, what string) {
	if ref == "1" || p.nonnil[ref] {
		return
	}
	c.oblige(p, "safe", "nil_deref", fmt.Sprintf("(not (= %s 0))", ref), what, nil)
	p.assume(fmt.Sprintf("(not (= %s 0))", ref))
	p.nonnil[ref] = true
}

func (c *FnCtx) alloc(p *Path, hint string) string {
	r := c.fresh(hint, "Int")
	p.assume(fmt.Sprintf("(> %s 1)", r))
	for _, a := range p.allocs {
		p.assume(fmt.Sprintf("(not (= %s %s))", r, a))
	}
	// fresh: not allocated before (see freshness instances at pointer loads)
	al := c.heapGetAlloc(p)
	p.assume(fmt.Sprintf("(= (atime %s) %s)", r, al))
	p.heap.m["$alloc"] = plusOne(al)
	p.allocs = append(p.allocs, r)
	p.nonnil[r] = true
	return r
}

// The allocation state is a clock: object x exists at time T iff atime(x) < T. A fresh object gets the
// current time and the clock advances; callees, loop iterations and other threads only ever advance it, so
// an object allocated now differs from every reference the program could have held before.
func (c *FnCtx) heapGetAlloc(p *Path) string {
	if a, ok := p.heap.m["$alloc"]; ok {
		return a
	}
	n := c.allocT0()
	p.heap.m["$alloc"] = n
	return n
}

func (c *FnCtx) allocT0() string {
	n := sym("T0 $alloc")
	if !c.declared[n] {
		c.declare(n, "Int")
		// nil and the static segment (address 1: package-level variables) are never handed out by an allocation
		c.decls = append(c.decls, fmt.Sprintf("(assert (and (< (atime 0) %s) (< (atime 1) %s)))", n, n))
	}
	return n
}

func inAl(al, x string) string { return "(< (atime " + x + ") " + al + ")" }

func plusOne(t string) string {
	if strings.HasPrefix(t, "(+ ") && strings.HasSuffix(t, ")") {
		if i := strings.LastIndex(t, " "); i > 3 {
			if k, err := strconv.Atoi(t[i+1 : len(t)-1]); err == nil {
				return fmt.Sprintf("(+ %s %d)", t[3:i], k+1)
			}
		}
	}
	return "(+ " + t + " 1)"
}

// advanceAlloc: somebody else (a callee, earlier loop iterations, another thread) may have allocated.
func (c *FnCtx) advanceAlloc(p *Path) string {
	al := c.heapGetAlloc(p)
	n := c.fresh("T $alloc", "Int")
	p.assume(fmt.Sprintf("(>= %s %s)", n, al))
	p.heap.m["$alloc"] = n
	return n
}

// allocated: assume that a pointer-like term obtained from the pre-existing world is allocated
// (so it differs from every object allocated later on this path).
func (c *FnCtx) assumeAllocated(p *Path, ref string) {
	if len(p.allocs) == 0 {
		// nothing allocated yet on this path: record against the entry alloc set
	}
	p.assume(fmt.Sprintf("(or (= %s 0) %s)", ref, inAl(c.allocT0(), ref)))
}

// ---------- the executor ----------

const maxPaths = 4096
const maxDepth = 8

func (c *FnCtx) execFrom(p *Path, b *ssa.BasicBlock, idx int) []outcome {
	if c.aborted != "" {
		return nil
	}
	fr := p.top()
	if idx == 0 {
		p.trace = append(p.trace, fmt.Sprintf("%s.%d", fr.fn.Name(), b.Index))
		if len(p.trace) > 4000 {
			c.aborted = "path too long (unbounded loop without invariant?) in " + fr.fn.Name()
			return nil
		}
		// loop header handling
		if li := c.eng.loopInfo(fr.fn)[b]; li != nil {
			stop := c.atLoopHead(p, b, li)
			if stop {
				return nil
			}
		} else {
			c.execPhis(p, b)
		}
	}
	if idx == 1_000_000 { // entered through mergeTriangle: phis already set, no loop-head processing
		idx = 0
		p.trace = append(p.trace, fmt.Sprintf("%s.%d", fr.fn.Name(), b.Index))
	}
	for i := idx; i < len(b.Instrs); i++ {
		ins := b.Instrs[i]
		switch x := ins.(type) {
		case *ssa.Phi:
			continue // handled at block entry
		case *ssa.DebugRef:
			if id, ok := x.Expr.(*ast.Ident); ok && !x.IsAddr {
				if v, isVar := x.Object().(*types.Var); isVar && v.IsField() {
					continue // the selector of a field read, not a variable
				}
				if fr.named == nil {
					fr.named = map[string]Val{}
				}
				fr.named[id.Name] = c.val(p, x.X)
			}
			continue
		case *ssa.If:
			cond := c.val(p, x.Cond)
			if j := c.mergeTriangle(p, b, cond.T); j != nil {
				return c.execFrom(p, j, 1_000_000)
			}
			return c.branch(p, b, cond.T)
		case *ssa.Jump:
			fr.prev = b
			return c.execFrom(p, b.Succs[0], 0)
		case *ssa.Return:
			var rs []Val
			for _, r := range x.Results {
				rs = append(rs, c.val(p, r))
			}
			return []outcome{{p: p, ret: rs}}
		case *ssa.Panic:
			pv := c.val(p, x.X)
			return c.raise(p, &pv)
		case *ssa.RunDefers:
			outs := c.runDefers(p, false)
			var res []outcome
			for _, o := range outs {
				if o.panic {
					res = append(res, o)
					continue
				}
				res = append(res, c.execFrom(o.p, b, i+1)...)
			}
			return res
		case *ssa.Call:
			outs := c.doCall(p, &x.Call, x, x.Pos())
			var res []outcome
			for _, o := range outs {
				if o.panic {
					res = append(res, c.unwind(o.p)...)
					continue
				}
				if len(o.ret) == 1 {
					o.p.top().regs[x] = o.ret[0]
				} else if len(o.ret) > 1 {
					o.p.top().regs[x] = Val{K: KTuple, Fs: o.ret, Typ: x.Type()}
				}
				res = append(res, c.execFrom(o.p, b, i+1)...)
			}
			return res
		case *ssa.Defer:
			d := deferred{call: &x.Call, pos: x.Pos()}
			for _, a := range x.Call.Args {
				d.args = append(d.args, c.val(p, a))
			}
			if !x.Call.IsInvoke() {
				d.fnv = c.val(p, x.Call.Value)
			} else {
				d.fnv = c.val(p, x.Call.Value)
			}
			fr.defers = append(fr.defers, d)
		case *ssa.Go:
			c.note("go statement in " + fr.fn.Name() + ": spawn is a ghost event; spawned function verified separately")
		default:
			c.execSimple(p, ins)
			if p.dead {
				return nil
			}
		}
	}
	return nil
}

// mergeTriangle: `if c { x = e }` where the then-block only jumps to the join block: no fork, the join's
// phis become ite(c, then-value, fallthrough-value). Keeps the number of paths down for chains of defaults.
func (c *FnCtx) mergeTriangle(p *Path, b *ssa.BasicBlock, cond string) *ssa.BasicBlock {
	if cond == "true" || cond == "false" || len(b.Succs) != 2 {
		return nil
	}
	var side, join *ssa.BasicBlock
	neg := false
	empty := func(x *ssa.BasicBlock) bool {
		if len(x.Preds) != 1 || len(x.Succs) != 1 {
			return false
		}
		for _, ins := range x.Instrs {
			switch ins.(type) {
			case *ssa.DebugRef, *ssa.Jump:
			default:
				return false
			}
		}
		return true
	}
	if empty(b.Succs[0]) && b.Succs[0].Succs[0] == b.Succs[1] {
		side, join = b.Succs[0], b.Succs[1]
	} else if empty(b.Succs[1]) && b.Succs[1].Succs[0] == b.Succs[0] {
		side, join, neg = b.Succs[1], b.Succs[0], true
	} else {
		return nil
	}
	fr := p.top()
	if c.eng.loopInfo(fr.fn)[join] != nil || len(join.Preds) != 2 {
		return nil
	}
	is, ib := -1, -1
	for i, pr := range join.Preds {
		if pr == side {
			is = i
		}
		if pr == b {
			ib = i
		}
	}
	if is < 0 || ib < 0 {
		return nil
	}
	var phis []*ssa.Phi
	var vals []Val
	for _, ins := range join.Instrs {
		ph, ok := ins.(*ssa.Phi)
		if !ok {
			break
		}
		vs, vb := c.val(p, ph.Edges[is]), c.val(p, ph.Edges[ib])
		if vs.K != vb.K || (vs.K != KInt && vs.K != KBool && vs.K != KStr) {
			return nil // only scalars are merged
		}
		cnd := cond
		if neg {
			cnd = "(not " + cond + ")"
		}
		v := vs
		v.T = fmt.Sprintf("(ite %s %s %s)", cnd, vs.T, vb.T)
		v.Typ = ph.Type()
		phis = append(phis, ph)
		vals = append(vals, v)
	}
	for i, ph := range phis {
		fr.regs[ph] = c.nameIt(p, vals[i], ph.Name())
	}
	fr.prev = side
	return join
}

func (c *FnCtx) branch(p *Path, b *ssa.BasicBlock, cond string) []outcome {
	var res []outcome
	if cond == "true" || cond == "false" {
		s := b.Succs[0]
		if cond == "false" {
			s = b.Succs[1]
		}
		p.top().prev = b
		return c.execFrom(p, s, 0)
	}
	c.npaths++
	if c.npaths > maxPaths {
		c.aborted = "path cap exceeded"
		return nil
	}
	q := p.clone()
	p.assume(cond)
	p.top().prev = b
	if c.feasible(p) {
		res = append(res, c.execFrom(p, b.Succs[0], 0)...)
	}
	q.assume("(not " + cond + ")")
	q.top().prev = b
	if c.feasible(q) {
		res = append(res, c.execFrom(q, b.Succs[1], 0)...)
	}
	return res
}

// feasible prunes syntactically contradictory paths only (cheap); real infeasibility shows up as
// trivially discharged obligations.
func (c *FnCtx) feasible(p *Path) bool { return true }

func (c *FnCtx) execPhis(p *Path, b *ssa.BasicBlock) {
	fr := p.top()
	if fr.prev == nil {
		return
	}
	pi := -1
	for i, pr := range b.Preds {
		if pr == fr.prev {
			pi = i
		}
	}
	if pi < 0 {
		return
	}
	// parallel assignment
	var phis []*ssa.Phi
	var vals []Val
	for _, ins := range b.Instrs {
		ph, ok := ins.(*ssa.Phi)
		if !ok {
			break
		}
		phis = append(phis, ph)
		vals = append(vals, c.val(p, ph.Edges[pi]))
	}
	for i, ph := range phis {
		v := vals[i]
		v.Typ = ph.Type()
		fr.regs[ph] = v
	}
}

// raise: a panic starts in the current frame.
func (c *FnCtx) raise(p *Path, pv *Val) []outcome {
	p.panicked = true
	p.panicVal = pv
	return c.unwind(p)
}

// unwind: run the current frame's deferred calls with a panic in flight.
func (c *FnCtx) unwind(p *Path) []outcome {
	outs := c.runDefers(p, true)
	var res []outcome
	for _, o := range outs {
		if o.p.panicked {
			res = append(res, outcome{p: o.p, panic: true})
		} else {
			// recovered: function returns normally through its Recover block
			fr := o.p.top()
			if fr.fn.Recover != nil {
				fr.prev = nil
				res = append(res, c.execFrom(o.p, fr.fn.Recover, 0)...)
			} else {
				var rs []Val
				sig := fr.fn.Signature
				for i := 0; i < sig.Results().Len(); i++ {
					rs = append(rs, zeroVal(sig.Results().At(i).Type()))
				}
				res = append(res, outcome{p: o.p, ret: rs})
			}
		}
	}
	return res
}

func (c *FnCtx) runDefers(p *Path, panicking bool) []outcome {
	fr := p.top()
	if len(fr.defers) == 0 {
		return []outcome{{p: p, panic: panicking}}
	}
	d := fr.defers[len(fr.defers)-1]
	fr.defers = fr.defers[:len(fr.defers)-1]
	// run d
	if panicking && p.panicVal != nil {
		fr.recov = p.panicVal
	}
	outs := c.doCallVals(p, d.call, d.fnv, d.args, d.pos, true)
	var res []outcome
	for _, o := range outs {
		q := o.p
		if o.panic {
			// deferred call itself panicked (re-panic): continue unwinding remaining defers
			q.panicked = true
			res = append(res, c.runDefers(q, true)...)
			continue
		}
		res = append(res, c.runDefers(q, q.panicked)...)
	}
	return res
}

// ---------- simple instructions ----------

func boolT(b bool) string {
	if b {
		return "true"
	}
	return "false"
}

func (c *FnCtx) execSimple(p *Path, ins ssa.Instruction) {
	fr := p.top()
	switch x := ins.(type) {
	case *ssa.Alloc:
		et := x.Type().Underlying().(*types.Pointer).Elem()
		r := c.alloc(p, "new_"+x.Name())
		if at, ok := et.Underlying().(*types.Array); ok {
			// array object = a backing store; elements live in the element heap like slice elements
			for _, l := range leavesOf(at.Elem()) {
				key := elemKey(at.Elem()) + l.Path
				arr := c.heapGet(&p.heap, key, l.Sort)
				z := "0"
				if l.Sort == "Bool" {
					z = "false"
				} else if l.Sort == "String" {
					z = "\"\""
				}
				p.heap.m[key] = fmt.Sprintf("(store %s %s ((as const (Array Int %s)) %s))", arr, r, l.Sort, z)
			}
			fr.regs[x] = Val{K: KPtr, T: r, Typ: x.Type(), Key: "array"}
			return
		}
		ptr := Val{K: KPtr, T: r, Typ: x.Type(), Key: pointeeKey(et)}
		if kindOf(et) != KStruct || !isOpaqueExternal(et) {
			c.store(p, &p.heap, ptr, zeroVal(et), et)
		}
		c.zeroGhost(p, ptr, et)
		fr.regs[x] = ptr
	case *ssa.FieldAddr:
		base := c.val(p, x.X)
		st := x.X.Type().Underlying().(*types.Pointer).Elem()
		f := structOf(st).Field(x.Field)
		c.checkNonNil(p, base.T, "field address "+f.Name())
		fr.regs[x] = Val{K: KPtr, T: base.T, Idx: base.Idx, Typ: x.Type(), Key: c.addrKey(base) + "." + f.Name()}
	case *ssa.Field:
		sv := c.val(p, x.X)
		if sv.K == KStruct && x.Field < len(sv.Fs) {
			fr.regs[x] = sv.Fs[x.Field]
		} else {
			fr.regs[x] = c.symbolic(p, x.Name(), x.Type())
		}
	case *ssa.IndexAddr:
		base := c.val(p, x.X)
		iv := c.val(p, x.Index)
		if pt, ok := x.X.Type().Underlying().(*types.Pointer); ok {
			if at, ok := pt.Elem().Underlying().(*types.Array); ok && base.K == KPtr {
				c.checkIndex(p, iv.T, fmt.Sprint(at.Len()), "array index")
				fr.regs[x] = Val{K: KPtr, T: base.T, Idx: iv.T, Typ: x.Type(), Key: elemKey(at.Elem())}
				return
			}
		}
		if base.K != KSlice {
			c.note("IndexAddr on non-slice in " + fr.fn.Name())
			fr.regs[x] = c.symbolic(p, x.Name(), x.Type())
			return
		}
		c.checkIndex(p, iv.T, base.Len, "index")
		et := elemTypeOf(x.X.Type())
		fr.regs[x] = Val{K: KPtr, T: base.T, Idx: iv.T, Typ: x.Type(), Key: elemKey(et)}
	case *ssa.Index:
		// string index or array value index
		if b, ok := x.X.Type().Underlying().(*types.Basic); ok && b.Info()&types.IsString != 0 {
			fr.regs[x] = c.stringByte(p, c.val(p, x.X), c.val(p, x.Index), x.Type())
			break
		}
		c.note("Index instruction abstracted in " + fr.fn.Name())
		fr.regs[x] = c.symbolic(p, x.Name(), x.Type())
	case *ssa.UnOp:
		c.execUnOp(p, x)
	case *ssa.BinOp:
		a, b := c.val(p, x.X), c.val(p, x.Y)
		fr.regs[x] = c.nameIt(p, c.binop(p, x.Op, a, b, x.X.Type(), x.Type(), x.Name()), x.Name())
	case *ssa.Store:
		ptr := c.val(p, x.Addr)
		v := c.val(p, x.Val)
		c.checkNonNil(p, ptr.T, "store")
		et := x.Addr.Type().Underlying().(*types.Pointer).Elem()
		c.permCheck(p, ptr, true, x.Pos())
		c.store(p, &p.heap, ptr, v, et)
	case *ssa.Convert:
		fr.regs[x] = c.nameIt(p, c.convert(p, c.val(p, x.X), x.X.Type(), x.Type(), x.Name()), x.Name())
	case *ssa.ChangeType:
		v := c.val(p, x.X)
		v.Typ = x.Type()
		fr.regs[x] = v
	case *ssa.ChangeInterface:
		v := c.val(p, x.X)
		v.Typ = x.Type()
		fr.regs[x] = v
	case *ssa.MakeInterface:
		fr.regs[x] = c.makeIface(p, c.val(p, x.X), x.X.Type(), x.Type())
	case *ssa.TypeAssert:
		c.typeAssert(p, x)
	case *ssa.Extract:
		t := c.val(p, x.Tuple)
		if t.K == KTuple && x.Index < len(t.Fs) {
			fr.regs[x] = t.Fs[x.Index]
		} else {
			fr.regs[x] = c.symbolic(p, x.Name(), x.Type())
		}
	case *ssa.MakeClosure:
		fn := x.Fn.(*ssa.Function)
		v := Val{K: KFunc, T: c.eng.fnID(fn), Typ: x.Type(), Fn: fn}
		for _, b := range x.Bindings {
			v.Bind = append(v.Bind, c.val(p, b))
		}
		fr.regs[x] = v
		// a closure with `captured` invariants: they must hold of what it captures here (and still when this
		// function returns, see capturedAtExit)
		if fcc := c.eng.contractOf(fn); fcc != nil && len(fcc.Captured) > 0 {
			c.capturedOf(p, fn, v.Bind, "pre", "", nil)
			p.created = append(p.created, madeClosure{fn, v.Bind})
		}
	case *ssa.MakeSlice:
		ln := c.val(p, x.Len)
		cp := c.val(p, x.Cap)
		c.oblige(p, "safe", "make_len", fmt.Sprintf("(and (<= 0 %s) (<= %s %s))", ln.T, ln.T, cp.T), "make", nil)
		base := c.alloc(p, "mk_"+x.Name())
		et := elemTypeOf(x.Type())
		v := Val{K: KSlice, T: base, Len: ln.T, Cap: cp.T, Typ: x.Type()}
		// zero contents
		for _, l := range leavesOf(et) {
			key := elemKey(et) + l.Path
			arr := c.heapGet(&p.heap, key, l.Sort)
			z := "0"
			if l.Sort == "Bool" {
				z = "false"
			} else if l.Sort == "String" {
				z = "\"\""
			}
			p.heap.m[key] = fmt.Sprintf("(store %s %s ((as const (Array Int %s)) %s))", arr, base, l.Sort, z)
		}
		fr.regs[x] = v
	case *ssa.MakeMap:
		r := c.alloc(p, "map_"+x.Name())
		mt := x.Type().Underlying().(*types.Map)
		key := typeKey(mt) + "#present"
		ks := "Int"
		if kindOf(mt.Key()) == KStr {
			ks = "String"
		}
		arr := c.heapGet(&p.heap, key, "Bool")
		p.heap.m[key] = fmt.Sprintf("(store %s %s ((as const (Array %s Bool)) false))", arr, r, ks)
		lk := typeKey(mt) + "#len"
		la := c.heapGet(&p.heap, lk, "Int")
		p.heap.m[lk] = fmt.Sprintf("(store %s %s 0)", la, r)
		fr.regs[x] = Val{K: KMap, T: r, Typ: x.Type()}
	case *ssa.MapUpdate:
		c.mapUpdate(p, x)
	case *ssa.Lookup:
		c.lookup(p, x)
	case *ssa.Slice:
		c.sliceOp(p, x)
	case *ssa.Range:
		mv := c.val(p, x.X)
		it := Val{K: KOpaque, T: c.fresh("range", "Int"), Typ: x.Type()}
		if mv.K == KMap {
			it.DynV = &mv
			it.Dyn = x.X.Type()
		}
		fr.regs[x] = it
	case *ssa.Next:
		it := c.val(p, x.Iter)
		r := c.symbolic(p, x.Name(), x.Type())
		if it.DynV != nil && it.DynV.K == KMap && r.K == KTuple && len(r.Fs) == 3 {
			// map iteration: each step yields some present entry (order and coverage are abstracted: the loop
			// is cut by its invariant like any other)
			mt := it.Dyn.Underlying().(*types.Map)
			m := *it.DynV
			base := typeKey(mt)
			kt := r.Fs[1].T
			pa := c.heapGet(&p.heap, base+"#present", "Bool")
			present := fmt.Sprintf("(and (not (= %s 0)) (select (select %s %s) %s))", m.T, pa, m.T, kt)
			p.assume(fmt.Sprintf("(=> %s %s)", r.Fs[0].T, present))
			v := valFromLeaves(mt.Elem(), func(path, srt string) string {
				arr := c.heapGet(&p.heap, base+"#val"+path, srt)
				return fmt.Sprintf("(select (select %s %s) %s)", arr, m.T, kt)
			})
			c.assumeRanges(p, v, mt.Elem())
			r.Fs[2] = v
			c.note("range over map in " + fr.fn.Name() + ": each step yields an arbitrary present entry (coverage of all entries is not modelled)")
		} else {
			c.note("range over string in " + fr.fn.Name() + ": iteration abstracted (havoc)")
		}
		fr.regs[x] = r
	case *ssa.Select:
		r := c.symbolic(p, x.Name(), x.Type())
		if !x.Blocking && len(x.States) == 1 && x.States[0].Dir == types.RecvOnly && r.K == KTuple && len(r.Fs) >= 1 {
			// the cancellation poll `select { case <-ctx.Done(): ... default: }`: a closed channel is always
			// ready; a Done channel that is not closed never is (trusted context contract, see context.spec)
			ch := c.val(p, x.States[0].Chan)
			arr := c.heapGet(&p.heap, "$g:chanClosed", "(Array Int Bool)")
			closed := fmt.Sprintf("(select (select %s 0) %s)", arr, ch.T)
			p.assume(fmt.Sprintf("(= (= %s 0) %s)", r.Fs[0].T, closed))
			p.assume(fmt.Sprintf("(or (= %s 0) (= %s (- 1)))", r.Fs[0].T, r.Fs[0].T))
			c.note("non-blocking receive poll in " + fr.fn.Name() + ": modelled by the trusted Done-channel contract")
		} else {
			c.note("select in " + fr.fn.Name() + ": outside subset, result havocked")
		}
		fr.regs[x] = r
	case *ssa.Send, *ssa.MakeChan:
		c.note("channel operation in " + fr.fn.Name() + ": outside subset, result havocked")
		if v, ok := ins.(ssa.Value); ok {
			fr.regs[v] = c.symbolic(p, v.Name(), v.Type())
		}
	default:
		c.note(fmt.Sprintf("unsupported instruction %T in %s: result havocked", ins, fr.fn.Name()))
		if v, ok := ins.(ssa.Value); ok {
			fr.regs[v] = c.symbolic(p, v.Name(), v.Type())
		}
	}
}

func (c *FnCtx) zeroGhost(p *Path, ptr Val, t types.Type) {
	// ghost fields of a freshly allocated struct start at their zero
	tk := typeKey(t)
	if st := structOf(t); st != nil && !isOpaqueExternal(t) {
		// library objects embedded by value: their ghost fields hang off the field's address
		for i := 0; i < st.NumFields(); i++ {
			ft := st.Field(i).Type()
			if !isOpaqueExternal(ft) {
				continue
			}
			ftk := typeKey(ft)
			for _, g := range c.eng.cs.GFields {
				if c.eng.qualType(g.Pkg, g.Type) != ftk || strings.HasPrefix(g.Sort, "(Array") {
					continue
				}
				key := tk + "." + st.Field(i).Name() + ".$" + g.Name
				z := "0"
				if g.Sort == "Bool" {
					z = "false"
				} else if g.Sort == "String" {
					z = "\"\""
				}
				arr := c.heapGet(&p.heap, key, g.Sort)
				p.heap.m[key] = fmt.Sprintf("(store %s %s %s)", arr, ptr.T, z)
			}
		}
	}
	for _, g := range c.eng.cs.GFields {
		if c.eng.qualType(g.Pkg, g.Type) != tk {
			continue
		}
		key := tk + ".$" + g.Name
		srt := g.Sort
		z := "0"
		if srt == "Bool" {
			z = "false"
		} else if srt == "String" {
			z = "\"\""
		}
		arr := c.heapGet(&p.heap, key, srt)
		p.heap.m[key] = fmt.Sprintf("(store %s %s %s)", arr, ptr.T, z)
	}
}

func (c *FnCtx) checkIndex(p *Path, idx, ln, what string) {
	k := idx + "<" + ln
	if p.inb[k] {
		return
	}
	g := fmt.Sprintf("(and (<= 0 %s) (< %s %s))", idx, idx, ln)
	c.oblige(p, "safe", "index_bounds", g, what, nil)
	p.assume(g)
	p.inb[k] = true
}

func (c *FnCtx) execUnOp(p *Path, x *ssa.UnOp) {
	fr := p.top()
	a := c.val(p, x.X)
	switch x.Op {
	case token.MUL: // load
		c.checkNonNil(p, a.T, "load")
		c.permCheck(p, a, false, x.Pos())
		v := c.load(p, &p.heap, a, x.Type())
		c.loadFacts(p, v, x.Type())
		c.closedFacts(p, a, x.Type())
		if a.Origin != "" {
			v.Origin = a.Origin
		}
		if v.K == KFunc && v.Origin == "" {
			k := c.addrKey(a)
			if i := strings.LastIndex(k, "."); i >= 0 {
				v.Origin = k[i+1:]
			}
		}
		fr.regs[x] = v
	case token.NOT:
		fr.regs[x] = Val{K: KBool, T: "(not " + a.T + ")", Typ: x.Type()}
	case token.SUB:
		if a.K == KInt {
			fr.regs[x] = Val{K: KInt, T: wrapInt("(- "+a.T+")", x.Type()), Typ: x.Type()}
		} else {
			fr.regs[x] = c.symbolic(p, x.Name(), x.Type())
		}
	case token.ARROW:
		c.note("channel receive in " + fr.fn.Name() + ": outside subset, result havocked")
		fr.regs[x] = c.symbolic(p, x.Name(), x.Type())
	default:
		c.note("unary " + x.Op.String() + " abstracted in " + fr.fn.Name())
		fr.regs[x] = c.symbolic(p, x.Name(), x.Type())
	}
}

func (c *FnCtx) binop(p *Path, op token.Token, a, b Val, opT, resT types.Type, hint string) Val {
	if a.K == KOpaque || b.K == KOpaque {
		return c.symbolic(p, hint, resT)
	}
	switch op {
	case token.EQL, token.NEQ:
		eq := c.equal(a, b)
		if op == token.NEQ {
			eq = "(not " + eq + ")"
		}
		return Val{K: KBool, T: eq, Typ: resT}
	}
	switch a.K {
	case KBool:
		switch op {
		case token.AND, token.LAND:
			return Val{K: KBool, T: "(and " + a.T + " " + b.T + ")", Typ: resT}
		case token.OR, token.LOR:
			return Val{K: KBool, T: "(or " + a.T + " " + b.T + ")", Typ: resT}
		}
	case KStr:
		switch op {
		case token.ADD:
			return Val{K: KStr, T: "(str.++ " + a.T + " " + b.T + ")", Typ: resT}
		case token.LSS:
			return Val{K: KBool, T: "(str.< " + a.T + " " + b.T + ")", Typ: resT}
		case token.LEQ:
			return Val{K: KBool, T: "(str.<= " + a.T + " " + b.T + ")", Typ: resT}
		case token.GTR:
			return Val{K: KBool, T: "(str.< " + b.T + " " + a.T + ")", Typ: resT}
		case token.GEQ:
			return Val{K: KBool, T: "(str.<= " + b.T + " " + a.T + ")", Typ: resT}
		}
	case KInt:
		switch op {
		case token.ADD:
			return Val{K: KInt, T: wrapInt("(+ "+a.T+" "+b.T+")", resT), Typ: resT}
		case token.SUB:
			return Val{K: KInt, T: wrapInt("(- "+a.T+" "+b.T+")", resT), Typ: resT}
		case token.MUL:
			return Val{K: KInt, T: wrapInt("(* "+a.T+" "+b.T+")", resT), Typ: resT}
		case token.QUO, token.REM:
			c.oblige(p, "safe", "div_by_zero", "(not (= "+b.T+" 0))", "division", nil)
			p.assume("(not (= " + b.T + " 0))")
			_, signed := intRange(opT)
			var q, r string
			if !signed {
				q = "(div " + a.T + " " + b.T + ")"
				r = "(mod " + a.T + " " + b.T + ")"
			} else {
				// truncated division
				q = fmt.Sprintf("(ite (>= %s 0) (div %s %s) (- (div (- %s) %s)))", a.T, a.T, b.T, a.T, b.T)
				r = fmt.Sprintf("(- %s (* %s %s))", a.T, b.T, q)
			}
			if !isConstTerm(b.T) {
				// quotient/remainder witnesses (DESIGN §2.3): name them and state the defining facts
				qq := c.fresh(hint+"_q", "Int")
				rr := c.fresh(hint+"_r", "Int")
				p.assume(fmt.Sprintf("(= %s %s)", qq, q))
				p.assume(fmt.Sprintf("(= %s (+ (* %s %s) %s))", a.T, b.T, qq, rr))
				if !signed {
					p.assume(fmt.Sprintf("(and (<= 0 %s) (< %s %s))", rr, rr, b.T))
				} else {
					p.assume(fmt.Sprintf("(and (< (- (ite (>= %s 0) %s (- %s))) %s) (< %s (ite (>= %s 0) %s (- %s))))", b.T, b.T, b.T, rr, rr, b.T, b.T, b.T))
					p.assume(fmt.Sprintf("(=> (>= %s 0) (>= %s 0))", a.T, rr))
					p.assume(fmt.Sprintf("(=> (<= %s 0) (<= %s 0))", a.T, rr))
				}
				q, r = qq, rr
			}
			if op == token.QUO {
				return Val{K: KInt, T: wrapInt(q, resT), Typ: resT}
			}
			return Val{K: KInt, T: r, Typ: resT}
		case token.LSS:
			return Val{K: KBool, T: "(< " + a.T + " " + b.T + ")", Typ: resT}
		case token.LEQ:
			return Val{K: KBool, T: "(<= " + a.T + " " + b.T + ")", Typ: resT}
		case token.GTR:
			return Val{K: KBool, T: "(> " + a.T + " " + b.T + ")", Typ: resT}
		case token.GEQ:
			return Val{K: KBool, T: "(>= " + a.T + " " + b.T + ")", Typ: resT}
		case token.SHL, token.SHR:
			if k, ok := constInt(b.T); ok && k >= 0 && k < 64 {
				if op == token.SHL {
					return Val{K: KInt, T: wrapInt("(* "+a.T+" "+pow2(k)+")", resT), Typ: resT}
				}
				return Val{K: KInt, T: "(div " + a.T + " " + pow2(k) + ")", Typ: resT}
			}
		}
	}
	c.note(fmt.Sprintf("binary %s on %v abstracted in %s", op, a.K, p.top().fn.Name()))
	return c.symbolic(p, hint, resT)
}

// nameIt gives a large scalar term a name so later terms stay small (sharing).
func (c *FnCtx) nameIt(p *Path, v Val, hint string) Val {
	if len(v.T) < 48 {
		return v
	}
	switch v.K {
	case KInt:
		n := c.fresh(hint, "Int")
		p.assume("(= " + n + " " + v.T + ")")
		v.T = n
	case KBool:
		n := c.fresh(hint, "Bool")
		p.assume("(= " + n + " " + v.T + ")")
		v.T = n
	}
	return v
}

func isConstTerm(t string) bool { _, ok := constInt(t); return ok }

func constInt(t string) (int, bool) {
	neg := false
	if strings.HasPrefix(t, "(- ") && strings.HasSuffix(t, ")") {
		neg = true
		t = t[3 : len(t)-1]
	}
	if t == "" || len(t) > 18 {
		if len(t) > 18 {
			for _, ch := range t {
				if ch < '0' || ch > '9' {
					return 0, false
				}
			}
			return 1 << 62, true // large constant
		}
		return 0, false
	}
	n := 0
	for _, ch := range t {
		if ch < '0' || ch > '9' {
			return 0, false
		}
		n = n*10 + int(ch-'0')
	}
	if neg {
		n = -n
	}
	return n, true
}

func (c *FnCtx) equal(a, b Val) string {
	switch {
	case a.K == KIface || b.K == KIface:
		// comparing with nil literal or another interface
		if a.K != KIface {
			a, b = b, a
		}
		if b.K == KIface {
			return fmt.Sprintf("(and (= %s %s) (= %s %s) (= %s %s))", a.T, b.T, a.IVal, b.IVal, a.IStr, b.IStr)
		}
		if b.T == "0" || b.Typ == nil || b.Typ == types.Typ[types.UntypedNil] {
			return fmt.Sprintf("(= %s 0)", a.T) // nil
		}
		// a concrete value (contract clauses only: the compiler boxes it first): boxed the way the code boxes it
		switch b.K {
		case KStr:
			return fmt.Sprintf("(and (= %s %s) (= %s %s))", a.T, c.eng.typeTag(b.Typ), a.IStr, b.T)
		case KBool, KStruct, KTuple, KSlice:
			panic(contractError{"comparison of an interface with a composite value is not supported"})
		}
		return fmt.Sprintf("(and (= %s %s) (= %s %s) (= %s \"\"))", a.T, c.eng.typeTag(b.Typ), a.IVal, b.T, a.IStr)
	case a.K == KSlice && b.K == KSlice:
		return fmt.Sprintf("(and (= %s %s) (= %s %s) (= %s %s))", a.T, b.T, a.Len, b.Len, a.Cap, b.Cap)
	case a.K == KSlice || b.K == KSlice:
		if a.K != KSlice {
			a = b
		}
		return fmt.Sprintf("(= %s 0)", a.T)
	case a.K == KStruct && b.K == KStruct:
		parts := []string{}
		for i := range a.Fs {
			if i < len(b.Fs) {
				parts = append(parts, c.equal(a.Fs[i], b.Fs[i]))
			}
		}
		if len(parts) == 0 {
			return "true"
		}
		return "(and " + strings.Join(parts, " ") + ")"
	case a.K == KPtr && b.K == KPtr:
		if a.Idx != "" && b.Idx != "" {
			return fmt.Sprintf("(and (= %s %s) (= %s %s))", a.T, b.T, a.Idx, b.Idx)
		}
		return fmt.Sprintf("(= %s %s)", a.T, b.T)
	}
	return fmt.Sprintf("(= %s %s)", a.T, b.T)
}

func (c *FnCtx) convert(p *Path, v Val, from, to types.Type, hint string) Val {
	fk, tk := kindOf(from), kindOf(to)
	switch {
	case fk == KInt && tk == KInt:
		if fitsIn(from, to) {
			return Val{K: KInt, T: v.T, Typ: to}
		}
		return Val{K: KInt, T: wrapInt(v.T, to), Typ: to}
	case fk == KStr && tk == KStr:
		v.Typ = to
		return v
	case fk == KStr && tk == KSlice: // []byte(s): remember the content as a ghost string
		base := c.alloc(p, "bytes_"+hint)
		key := "$bytes"
		arr := c.heapGet(&p.heap, key, "String")
		p.heap.m[key] = fmt.Sprintf("(store %s %s %s)", arr, base, v.T)
		ln := "(str.len " + v.T + ")"
		return Val{K: KSlice, T: base, Len: ln, Cap: ln, Typ: to}
	case fk == KSlice && tk == KStr:
		arr := c.heapGet(&p.heap, "$bytes", "String")
		return Val{K: KStr, T: fmt.Sprintf("(select %s %s)", arr, v.T), Typ: to}
	case fk == KOpaque && tk == KInt:
		r := c.symbolic(p, hint, to)
		return r
	case tk == KOpaque:
		return Val{K: KOpaque, T: c.fresh(hint, "Int"), Typ: to}
	}
	c.note(fmt.Sprintf("conversion %s -> %s abstracted", from, to))
	return c.symbolic(p, hint, to)
}

// ---------- interfaces ----------

func (c *FnCtx) makeIface(p *Path, v Val, from, to types.Type) Val {
	tag := c.eng.typeTag(from)
	r := Val{K: KIface, T: tag, IVal: "0", IStr: "\"\"", Typ: to, Dyn: from}
	vv := v
	r.DynV = &vv
	switch v.K {
	case KStr:
		r.IStr = v.T
	case KBool:
		r.IVal = "(ite " + v.T + " 1 0)"
	case KStruct, KTuple, KSlice, KIface:
		// boxed composite: payload identity is a fresh reference
		r.IVal = c.fresh("box", "Int")
	default:
		r.IVal = v.T
	}
	return r
}

func (c *FnCtx) typeAssert(p *Path, x *ssa.TypeAssert) {
	fr := p.top()
	v := c.val(p, x.X)
	at := x.AssertedType
	var ok string
	var res Val
	if types.IsInterface(at) {
		// interface-to-interface: holds iff dynamic type implements at
		if v.Dyn != nil {
			impl := types.Implements(v.Dyn, at.Underlying().(*types.Interface))
			ok = boolT(impl)
		} else {
			ok = c.eng.implementsPred(c, v.T, at)
			ok = fmt.Sprintf("(and (not (= %s 0)) %s)", v.T, ok)
		}
		res = v
		res.Typ = at
	} else {
		tag := c.eng.typeTag(at)
		if v.Dyn != nil {
			ok = boolT(types.Identical(v.Dyn, at))
		} else {
			ok = fmt.Sprintf("(= %s %s)", v.T, tag)
		}
		if v.DynV != nil && v.Dyn != nil && types.Identical(v.Dyn, at) {
			res = *v.DynV
		} else {
			switch kindOf(at) {
			case KStr:
				res = Val{K: KStr, T: v.IStr, Typ: at}
			case KBool:
				res = Val{K: KBool, T: "(= " + v.IVal + " 1)", Typ: at}
			case KInt, KPtr, KMap, KFunc:
				res = Val{K: kindOf(at), T: v.IVal, Typ: at}
				c.assumeRangesIf(p, ok, res, at)
			default:
				res = c.symbolic(p, x.Name(), at)
				if res.K == KSlice {
					// the length of a slice boxed in an interface is a function of the box (contracts: boxlen(x))
					p.assume(fmt.Sprintf("(= %s (box_len %s))", res.Len, v.IVal))
				}
			}
		}
	}
	if x.CommaOk {
		okv := Val{K: KBool, T: ok, Typ: types.Typ[types.Bool]}
		// on failure the value is the zero value
		fr.regs[x] = Val{K: KTuple, Fs: []Val{res, okv}, Typ: x.Type()}
		return
	}
	c.oblige(p, "safe", "type_assert", ok, "type assertion to "+at.String(), nil)
	p.assume(ok)
	fr.regs[x] = res
}

func (c *FnCtx) assumeRangesIf(p *Path, cond string, v Val, t types.Type) {
	if f := rangeFact(v.T, t); f != "" {
		p.assume(fmt.Sprintf("(=> %s %s)", cond, f))
	}
}

// ---------- maps ----------

func mapKeySort(mt *types.Map) string {
	if kindOf(mt.Key()) == KStr {
		return "String"
	}
	return "Int"
}

func (c *FnCtx) mapUpdate(p *Path, x *ssa.MapUpdate) {
	m := c.val(p, x.Map)
	k := c.val(p, x.Key)
	v := c.val(p, x.Value)
	mt := x.Map.Type().Underlying().(*types.Map)
	c.oblige(p, "safe", "nil_map_write", "(not (= "+m.T+" 0))", "map update", nil)
	base := typeKey(mt)
	kt := k.T
	if k.K == KIface {
		kt = k.IVal
	}
	pk := base + "#present"
	pa := c.heapGet(&p.heap, pk, "Bool")
	lk := base + "#len"
	la := c.heapGet(&p.heap, lk, "Int")
	was := fmt.Sprintf("(select (select %s %s) %s)", pa, m.T, kt)
	p.heap.m[lk] = fmt.Sprintf("(store %s %s (ite %s (select %s %s) (+ (select %s %s) 1)))", la, m.T, was, la, m.T, la, m.T)
	p.heap.m[pk] = fmt.Sprintf("(store %s %s (store (select %s %s) %s true))", pa, m.T, pa, m.T, kt)
	var lt [][2]string
	leafTerms(v, mt.Elem(), "", &lt)
	for i, l := range leavesOf(mt.Elem()) {
		key := base + "#val" + l.Path
		arr := c.heapGet(&p.heap, key, l.Sort)
		p.heap.m[key] = fmt.Sprintf("(store %s %s (store (select %s %s) %s %s))", arr, m.T, arr, m.T, kt, lt[i][1])
	}
}

// stringByte: s[i], the i-th byte. Strings are SMT strings with one character per byte (the same convention as
// len(s) = str.len): the byte is the character's code, taken to be below 256.
func (c *FnCtx) stringByte(p *Path, s, i Val, t types.Type) Val {
	c.checkIndex(p, i.T, "(str.len "+s.T+")", "string index")
	r := Val{K: KInt, T: fmt.Sprintf("(str.to_code (str.at %s %s))", s.T, i.T), Typ: t}
	p.assume(fmt.Sprintf("(and (<= 0 %s) (<= %s 255))", r.T, r.T))
	return r
}

func (c *FnCtx) lookup(p *Path, x *ssa.Lookup) {
	fr := p.top()
	m := c.val(p, x.X)
	k := c.val(p, x.Index)
	mt, isMap := x.X.Type().Underlying().(*types.Map)
	if !isMap { // string index
		fr.regs[x] = c.stringByte(p, m, k, x.Type())
		return
	}
	base := typeKey(mt)
	kt := k.T
	if k.K == KIface {
		kt = k.IVal
	}
	pa := c.heapGet(&p.heap, base+"#present", "Bool")
	present := fmt.Sprintf("(and (not (= %s 0)) (select (select %s %s) %s))", m.T, pa, m.T, kt)
	zero := zeroVal(mt.Elem())
	var zt [][2]string
	leafTerms(zero, mt.Elem(), "", &zt)
	i := 0
	v := valFromLeaves(mt.Elem(), func(path, srt string) string {
		key := base + "#val" + path
		arr := c.heapGet(&p.heap, key, srt)
		t := fmt.Sprintf("(ite %s (select (select %s %s) %s) %s)", present, arr, m.T, kt, zt[i][1])
		i++
		return t
	})
	c.assumeRanges(p, v, mt.Elem())
	if x.CommaOk {
		fr.regs[x] = Val{K: KTuple, Fs: []Val{v, {K: KBool, T: present, Typ: types.Typ[types.Bool]}}, Typ: x.Type()}
	} else {
		fr.regs[x] = v
	}
}

// ---------- slices ----------

func (c *FnCtx) sliceOp(p *Path, x *ssa.Slice) {
	fr := p.top()
	v := c.val(p, x.X)
	if v.K == KStr {
		lo, hi := "0", "(str.len "+v.T+")"
		if x.Low != nil {
			lo = c.val(p, x.Low).T
		}
		if x.High != nil {
			hi = c.val(p, x.High).T
		}
		c.oblige(p, "safe", "slice_bounds", fmt.Sprintf("(and (<= 0 %s) (<= %s %s) (<= %s (str.len %s)))", lo, lo, hi, hi, v.T), "string slice", nil)
		fr.regs[x] = Val{K: KStr, T: fmt.Sprintf("(str.substr %s %s (- %s %s))", v.T, lo, hi, lo), Typ: x.Type()}
		return
	}
	if pt, ok := x.X.Type().Underlying().(*types.Pointer); ok && v.K == KPtr {
		if at, ok := pt.Elem().Underlying().(*types.Array); ok && x.Low == nil {
			n := fmt.Sprint(at.Len())
			hi := n
			if x.High != nil {
				hi = c.val(p, x.High).T
			}
			fr.regs[x] = Val{K: KSlice, T: v.T, Len: hi, Cap: n, Typ: x.Type()}
			return
		}
	}
	if v.K != KSlice {
		c.note("slice of non-slice abstracted in " + fr.fn.Name())
		fr.regs[x] = c.symbolic(p, x.Name(), x.Type())
		return
	}
	if x.Low != nil {
		lo := c.val(p, x.Low)
		if lo.T != "0" {
			c.note("slice with non-zero low bound in " + fr.fn.Name() + ": outside subset, result havocked")
			fr.regs[x] = c.symbolic(p, x.Name(), x.Type())
			return
		}
	}
	hi := v.Len
	if x.High != nil {
		hi = c.val(p, x.High).T
	}
	c.oblige(p, "safe", "slice_bounds", fmt.Sprintf("(and (<= 0 %s) (<= %s %s))", hi, hi, v.Cap), "slice", nil)
	p.assume(fmt.Sprintf("(and (<= 0 %s) (<= %s %s))", hi, hi, v.Cap))
	r := v
	r.Len = hi
	r.Typ = x.Type()
	if x.Max != nil {
		r.Cap = c.val(p, x.Max).T
	}
	fr.regs[x] = r
}

// appendOne models append(s, x) without forking: in place when there is room, else a fresh backing store
// holding a copy of the first len elements.
func (c *FnCtx) appendVals(p *Path, s Val, elems []Val, et types.Type, hint string) Val {
	cur := s
	for _, e := range elems {
		nb := c.alloc(p, "grow_"+hint)
		room := fmt.Sprintf("(< %s %s)", cur.Len, cur.Cap)
		// name the resulting base so that terms (and quantifier patterns) built from it contain no ite
		base := c.fresh("base_"+hint, "Int")
		p.assume(fmt.Sprintf("(= %s (ite %s %s %s))", base, room, cur.T, nb))
		var lt [][2]string
		leafTerms(e, et, "", &lt)
		for i, l := range leavesOf(et) {
			key := elemKey(et) + l.Path
			arr := c.heapGet(&p.heap, key, l.Sort)
			p.heap.m[key] = fmt.Sprintf("(store %s %s (store (select %s %s) %s %s))", arr, base, arr, cur.T, cur.Len, lt[i][1])
			c.nameArr(p, &p.heap, key)
			c.rowHint(p, key, arr, base)
		}
		ncap := c.fresh("cap_"+hint, "Int")
		newLen := "(+ " + cur.Len + " 1)"
		p.assume(fmt.Sprintf("(ite %s (= %s %s) (>= %s %s))", room, ncap, cur.Cap, ncap, newLen))
		p.noteBase(base)
		cur = Val{K: KSlice, T: base, Len: newLen, Cap: ncap, Typ: s.Typ}
	}
	return cur
}

// ---------- misc ----------

func sortedNotes(m map[string]bool) []string {
	var s []string
	for k := range m {
		s = append(s, k)
	}
	sort.Strings(s)
	return s
}
