package main

// Contract files: //@ lines in /repo/**/zz_contracts_verif.go (Helios functions) and
// /verif/contracts/trusted/*.spec (assumed contracts on dependencies, keyword "trusted").
// Line-oriented; an expression may continue on following lines that do not start with a keyword.

import (
	"fmt"
	"os"
	"path/filepath"
	"strconv"
	"strings"
)

// ---------- expression AST ----------

type Expr interface{ String() string }

type (
	EIdent struct{ Name string }
	EInt   struct{ V string }
	EStr   struct{ V string }
	EBool  struct{ V bool }
	ENil   struct{}
	EUn    struct {
		Op string
		X  Expr
	}
	EBin struct {
		Op   string
		X, Y Expr
	}
	ECond  struct{ C, A, B Expr }
	EField struct {
		X Expr
		F string
	}
	EIndex struct{ X, I Expr }
	ECall  struct {
		F    string
		Args []Expr
	}
	EQuant struct {
		Forall bool
		Var    string
		Typ    string
		Body   Expr
		Trig   [][]Expr
	}
)

func (e EIdent) String() string { return e.Name }
func (e EInt) String() string   { return e.V }
func (e EStr) String() string   { return strconv.Quote(e.V) }
func (e EBool) String() string  { return fmt.Sprint(e.V) }
func (e ENil) String() string   { return "nil" }
func (e EUn) String() string    { return e.Op + e.X.String() }
func (e EBin) String() string   { return "(" + e.X.String() + " " + e.Op + " " + e.Y.String() + ")" }
func (e ECond) String() string {
	return "(" + e.C.String() + " ? " + e.A.String() + " : " + e.B.String() + ")"
}
func (e EField) String() string { return e.X.String() + "." + e.F }
func (e EIndex) String() string { return e.X.String() + "[" + e.I.String() + "]" }
func (e ECall) String() string {
	s := []string{}
	for _, a := range e.Args {
		s = append(s, a.String())
	}
	return e.F + "(" + strings.Join(s, ", ") + ")"
}
func (e EQuant) String() string {
	q := "exists"
	if e.Forall {
		q = "forall"
	}
	return "(" + q + " " + e.Var + " " + e.Typ + " :: " + e.Body.String() + ")"
}

// ---------- lexer ----------

type tok struct {
	k string // id int str op eof
	s string
}

func lex(src string) ([]tok, error) {
	var out []tok
	i := 0
	for i < len(src) {
		c := src[i]
		switch {
		case c == ' ' || c == '\t' || c == '\n':
			i++
		case c == '/' && i+1 < len(src) && src[i+1] == '/':
			i = len(src)
		case isIdStart(c):
			j := i
			for j < len(src) && (isIdStart(src[j]) || src[j] >= '0' && src[j] <= '9' || src[j] == '$') {
				j++
			}
			out = append(out, tok{"id", src[i:j]})
			i = j
		case c >= '0' && c <= '9':
			j := i
			for j < len(src) && (src[j] >= '0' && src[j] <= '9' || src[j] == '_') {
				j++
			}
			out = append(out, tok{"int", strings.ReplaceAll(src[i:j], "_", "")})
			i = j
		case c == '"':
			j := i + 1
			for j < len(src) && src[j] != '"' {
				if src[j] == '\\' {
					j++
				}
				j++
			}
			if j >= len(src) {
				return nil, fmt.Errorf("unterminated string")
			}
			s, err := strconv.Unquote(src[i : j+1])
			if err != nil {
				return nil, err
			}
			out = append(out, tok{"str", s})
			i = j + 1
		default:
			ops := []string{"<==>", "==>", "::", ":=", "==", "!=", "<=", ">=", "&&", "||", "++", "+", "-", "*", "/", "%", "<", ">", "!", "(", ")", "[", "]", ".", ",", "?", ":", "{", "}", "#"}
			found := false
			for _, o := range ops {
				if strings.HasPrefix(src[i:], o) {
					out = append(out, tok{"op", o})
					i += len(o)
					found = true
					break
				}
			}
			if !found {
				return nil, fmt.Errorf("bad character %q in %q", c, src)
			}
		}
	}
	out = append(out, tok{"eof", ""})
	return out, nil
}

func isIdStart(c byte) bool {
	return c == '_' || c >= 'a' && c <= 'z' || c >= 'A' && c <= 'Z'
}

// ---------- parser (precedence climbing) ----------

type parser struct {
	t []tok
	p int
}

func (p *parser) peek() tok { return p.t[p.p] }
func (p *parser) next() tok { t := p.t[p.p]; p.p++; return t }
func (p *parser) isOp(s string) bool {
	return p.t[p.p].k == "op" && p.t[p.p].s == s
}
func (p *parser) expect(s string) {
	if !p.isOp(s) {
		panic(fmt.Sprintf("expected %q, got %q", s, p.peek().s))
	}
	p.p++
}

func ParseExpr(src string) (e Expr, err error) {
	defer func() {
		if r := recover(); r != nil {
			err = fmt.Errorf("parse %q: %v", src, r)
		}
	}()
	t, err := lex(src)
	if err != nil {
		return nil, err
	}
	p := &parser{t: t}
	e = p.expr()
	if p.peek().k != "eof" {
		panic("trailing " + p.peek().s)
	}
	return e, nil
}

func (p *parser) expr() Expr { return p.iff() }

func (p *parser) iff() Expr {
	x := p.impl()
	for p.isOp("<==>") {
		p.next()
		y := p.impl()
		x = EBin{"<==>", x, y}
	}
	return x
}
func (p *parser) impl() Expr {
	x := p.cond()
	if p.isOp("==>") {
		p.next()
		y := p.impl() // right assoc
		return EBin{"==>", x, y}
	}
	return x
}
func (p *parser) cond() Expr {
	c := p.or()
	if p.isOp("?") {
		p.next()
		a := p.cond()
		p.expect(":")
		b := p.cond()
		return ECond{c, a, b}
	}
	return c
}
func (p *parser) or() Expr {
	x := p.and()
	for p.isOp("||") {
		p.next()
		x = EBin{"||", x, p.and()}
	}
	return x
}
func (p *parser) and() Expr {
	x := p.cmp()
	for p.isOp("&&") {
		p.next()
		x = EBin{"&&", x, p.cmp()}
	}
	return x
}
func (p *parser) cmp() Expr {
	x := p.add()
	for {
		t := p.peek()
		if t.k == "op" && (t.s == "==" || t.s == "!=" || t.s == "<" || t.s == "<=" || t.s == ">" || t.s == ">=") {
			p.next()
			x = EBin{t.s, x, p.add()}
		} else {
			return x
		}
	}
}
func (p *parser) add() Expr {
	x := p.mul()
	for {
		t := p.peek()
		if t.k == "op" && (t.s == "+" || t.s == "-" || t.s == "++") {
			p.next()
			x = EBin{t.s, x, p.mul()}
		} else {
			return x
		}
	}
}
func (p *parser) mul() Expr {
	x := p.unary()
	for {
		t := p.peek()
		if t.k == "op" && (t.s == "*" || t.s == "/" || t.s == "%") {
			p.next()
			x = EBin{t.s, x, p.unary()}
		} else {
			return x
		}
	}
}
func (p *parser) unary() Expr {
	if p.isOp("!") {
		p.next()
		return EUn{"!", p.unary()}
	}
	if p.isOp("-") {
		p.next()
		return EUn{"-", p.unary()}
	}
	if p.isOp("[") && p.t[p.p+1].k == "op" && p.t[p.p+1].s == "]" { // a slice type used as an argument, e.g. backing(x, []*Backend)
		p.next()
		p.next()
		inner := p.unary()
		return EIdent{"[]" + inner.String()}
	}
	if p.isOp("*") { // a pointer type used as an argument, e.g. asptr(x, *bucket)
		p.next()
		t := p.next()
		name := "*" + t.s
		for p.isOp(".") {
			p.next()
			name += "." + p.next().s
		}
		return EIdent{name}
	}
	return p.postfix()
}
func (p *parser) postfix() Expr {
	x := p.primary()
	for {
		switch {
		case p.isOp("."):
			p.next()
			t := p.next()
			if t.k != "id" {
				panic("field name expected")
			}
			x = EField{x, t.s}
		case p.isOp("["):
			p.next()
			i := p.expr()
			p.expect("]")
			x = EIndex{x, i}
		default:
			return x
		}
	}
}
func (p *parser) primary() Expr {
	t := p.next()
	switch t.k {
	case "int":
		return EInt{t.s}
	case "str":
		return EStr{t.s}
	case "id":
		switch t.s {
		case "true":
			return EBool{true}
		case "false":
			return EBool{false}
		case "nil":
			return ENil{}
		case "forall", "exists":
			v := p.next()
			if v.k != "id" {
				panic("quantifier variable expected")
			}
			// type: tokens up to "::"
			typ := ""
			for !p.isOp("::") {
				if p.peek().k == "eof" {
					panic(":: expected in quantifier")
				}
				typ += p.next().s
			}
			p.expect("::")
			var trig [][]Expr
			for p.isOp("{") { // optional triggers: {e1, e2} is one multi-pattern; several groups are alternatives
				p.next()
				var grp []Expr
				for {
					grp = append(grp, p.expr())
					if p.isOp(",") {
						p.next()
						continue
					}
					break
				}
				p.expect("}")
				trig = append(trig, grp)
			}
			body := p.expr()
			return EQuant{t.s == "forall", v.s, typ, body, trig}
		}
		if p.isOp("(") {
			p.next()
			var args []Expr
			if !p.isOp(")") {
				for {
					args = append(args, p.expr())
					if p.isOp(",") {
						p.next()
						continue
					}
					break
				}
			}
			p.expect(")")
			return ECall{t.s, args}
		}
		return EIdent{t.s}
	case "op":
		if t.s == "(" {
			e := p.expr()
			p.expect(")")
			return e
		}
	}
	panic("unexpected token " + t.s)
}

// ---------- contract items ----------

type Clause struct {
	Label string
	Src   string
	E     Expr
	Seq   bool // "seq:" prefix — checked/assumed in seq mode only
	Mon   bool // "mon:" prefix — a clause about interleavings: proved in mon mode only, never assumed at call sites
	Acq   bool // "acq:" prefix — mon mode only; old() is the state at the latest write-lock acquisition
	Props []string
}

type FuncContract struct {
	Name       string // RelString within package, e.g. (*CircuitBreaker).afterRequest
	Pkg        string // package path suffix, e.g. internal/circuitbreaker ("" for trusted with full name)
	Trusted    bool
	Params     []string // declared names (trusted specs): receiver first
	Requires   []Clause
	Ensures    []Clause
	EnsuresP   []Clause // ensures_panic
	Modifies   []string // raw location strings
	MayPanic   bool
	NoReturn   bool
	Inline     bool
	Modes      []string
	Props      []string // property ids this contract serves
	Ghost      []GhostStmt
	Pure       bool
	File       string
	Line       int
	ResultName []string
	Universal  []string // parameters the callee may drive arbitrarily (any sequence of method calls): universal client
	// captured: an invariant over the variables a closure captures. Obligation where the closure is created and at the
	// exits of the creating function and of the closure itself; assumed at the closure's entry.
	Captured []Clause
}

type GhostStmt struct {
	At  string // "entry" | "exit"
	Src string
	LHS Expr
	RHS Expr
	Cnd Expr // optional guard
}

type LoopContract struct {
	Func      string
	Pkg       string
	Ordinal   int
	Invariant []Clause
	Decreases *Clause
	Modifies  []string
	Props     []string
}

type PredDef struct {
	Name   string
	Pkg    string
	Params []string // names
	PTypes []string // types as written
	Body   Expr
	Src    string
	RetTyp string // "" => bool pred; otherwise a spec func with this result type
	Rec    bool
}

type GhostField struct {
	Type, Name, Sort string
	Pkg              string
}
type GhostVar struct {
	Name, Sort string
	Pkg        string
}

type FieldPolicy struct {
	Pkg    string
	Type   string
	Field  string
	Policy string // guarded_by | atomic | immutable
	Guard  string // Type.field of mutex, for guarded_by
	Write  bool   // require write mode even for... (unused)
	Props  []string
}

type Monitor struct {
	Rely   []Clause // assumed at every acquisition, NOT checked at release: an environment assumption (listed in evidence)
	Guar   []Clause
	Pkg    string
	Type   string // struct type holding the mutex
	Mutex  string // field name
	Self   string // name the invariant uses for the object
	Guards []string
	Inv    []Clause
}

// AtomicObj: an internally synchronised library object (sync.Map) embedded in a Helios struct and shared
// between threads. In mon mode its abstract state is havocked down to Inv before every operation on it and
// every operation must re-establish Inv and satisfy the two-state Guarantee clauses.
type AtomicObj struct {
	Pkg, Type, Field, Self string
	State                  []string
	Inv                    []Clause
	Guar                   []Clause
}

type ObjInv struct {
	Pkg  string
	Type string
	Self string
	Inv  []Clause
}

type Lemma struct {
	Name   string
	Pkg    string
	Params []string
	PTypes []string
	Req    []Clause
	Ens    []Clause
	Induct string // induction variable ("" none)
	Props  []string
	Uses   []string
	Hints  []string
}

type LockRef struct{ Pkg, Type, Mutex string }

type Contracts struct {
	LockOrders [][]LockRef
	Funcs      map[string]*FuncContract // key pkg+"|"+name
	Loops      map[string]*LoopContract // key pkg|func#n
	Preds      map[string]*PredDef      // key name (global namespace)
	GFields    []GhostField
	GVars      []GhostVar
	Policies   []FieldPolicy
	Monitors   []*Monitor
	ObjInvs    []*ObjInv
	Atomics    []*AtomicObj
	Lemmas     []*Lemma
	Forwards   []Forward
	UFuns      []UFun
	Axioms     []Clause
	AxiomPkg   []string
	Files      []string
	Scan       map[string]int // assumption scan: keyword -> count
}

type UFun struct {
	Name string
	Args []string
	Ret  string
}

type Forward struct {
	Pkg, Type string
	Ifaces    []string
	Props     []string
}

var keywords = map[string]bool{"func": true, "trusted": true, "requires": true, "ensures": true, "ensures_panic": true,
	"modifies": true, "may_panic": true, "noreturn": true, "inline": true, "mode": true, "props": true, "loop": true, "invariant": true,
	"decreases": true, "pred": true, "spec": true, "ghost": true, "field": true, "monitor": true, "lockorder": true, "guards": true, "inv": true,
	"objinv": true, "rely": true, "lemma": true, "ufun": true, "axiom": true, "universal": true, "atomic": true, "state": true, "guarantee": true, "induction": true, "forwards": true, "package": true, "pure": true, "results": true, "uses": true, "hint": true, "captured": true}

// splitTop splits at commas that are not inside parentheses.
func splitTop(s string) []string {
	var out []string
	depth, start := 0, 0
	for i, ch := range s {
		switch ch {
		case '(':
			depth++
		case ')':
			depth--
		case ',':
			if depth == 0 {
				out = append(out, s[start:i])
				start = i + 1
			}
		}
	}
	return append(out, s[start:])
}

func firstWord(s string) (string, string) {
	s = strings.TrimSpace(s)
	i := strings.IndexAny(s, " \t")
	if i < 0 {
		return s, ""
	}
	return s[:i], strings.TrimSpace(s[i+1:])
}

func parseClause(rest string) (Clause, error) {
	c := Clause{Src: rest}
	// optional "label:" prefix (identifier followed by ':' but not '::' / ':=')
	r := rest
	if strings.HasPrefix(r, "seq:") {
		c.Seq = true
		r = strings.TrimSpace(r[4:])
	}
	if strings.HasPrefix(r, "acq:") {
		c.Acq = true
		r = strings.TrimSpace(r[4:])
	}
	if strings.HasPrefix(r, "mon:") {
		c.Mon = true
		r = strings.TrimSpace(r[4:])
	}
	if i := strings.Index(r, ":"); i > 0 && i+1 < len(r) && r[i+1] != ':' && r[i+1] != '=' {
		lab := r[:i]
		ok := true
		for _, ch := range []byte(lab) {
			if !(isIdStart(ch) || ch >= '0' && ch <= '9' || ch == '@') {
				ok = false
			}
		}
		if ok {
			parts := strings.Split(lab, "@") // label@C08@C18: the clause serves only the listed properties
			c.Label = parts[0]
			c.Props = parts[1:]
			r = strings.TrimSpace(r[i+1:])
		}
	}
	e, err := ParseExpr(r)
	if err != nil {
		return c, err
	}
	c.E = e
	c.Src = r
	return c, nil
}

func LoadContracts(repo string, trustedDir string) (*Contracts, error) {
	cs := &Contracts{Funcs: map[string]*FuncContract{}, Loops: map[string]*LoopContract{}, Preds: map[string]*PredDef{}, Scan: map[string]int{}}
	var files []string
	filepath.Walk(repo, func(p string, info os.FileInfo, err error) error {
		if err == nil && !info.IsDir() && info.Name() == "zz_contracts_verif.go" {
			files = append(files, p)
		}
		return nil
	})
	tf, _ := filepath.Glob(filepath.Join(trustedDir, "*.spec"))
	files = append(files, tf...)
	for _, f := range files {
		if err := cs.loadFile(f, repo); err != nil {
			return nil, err
		}
		cs.Files = append(cs.Files, f)
	}
	return cs, nil
}

func (cs *Contracts) loadFile(path, repo string) error {
	data, err := os.ReadFile(path)
	if err != nil {
		return err
	}
	pkg := ""
	if strings.HasPrefix(path, repo) {
		pkg = strings.TrimPrefix(filepath.Dir(path), repo+"/")
	}
	isSpec := strings.HasSuffix(path, ".spec")
	// gather logical lines
	type ll struct {
		kw, rest string
		line     int
	}
	var lines []ll
	for n, raw := range strings.Split(string(data), "\n") {
		var body string
		if isSpec {
			body = raw
			if i := strings.Index(body, "//"); i >= 0 {
				// keep '//' inside string literals out of scope: specs avoid them
				body = body[:i]
			}
		} else {
			t := strings.TrimSpace(raw)
			if !strings.HasPrefix(t, "//@") {
				continue
			}
			body = t[3:]
			// strip trailing line comment introduced by " // "
			if i := strings.Index(body, " // "); i >= 0 {
				body = body[:i]
			}
		}
		if strings.TrimSpace(body) == "" {
			continue
		}
		kw, rest := firstWord(body)
		if keywords[kw] {
			lines = append(lines, ll{kw, rest, n + 1})
		} else if len(lines) > 0 {
			lines[len(lines)-1].rest += " " + strings.TrimSpace(body)
		} else {
			return fmt.Errorf("%s:%d: continuation without a clause", path, n+1)
		}
	}
	var curF *FuncContract
	var curL *LoopContract
	var curM *Monitor
	var curO *ObjInv
	var curLem *Lemma
	var curA *AtomicObj
	reset := func() { curF, curL, curM, curO, curLem, curA = nil, nil, nil, nil, nil, nil }
	fail := func(l ll, e error) error { return fmt.Errorf("%s:%d: %v", path, l.line, e) }
	for _, l := range lines {
		switch l.kw {
		case "package":
			pkg = l.rest
		case "trusted", "func":
			rest := l.rest
			trusted := l.kw == "trusted"
			if trusted {
				k, r := firstWord(rest)
				if k != "func" {
					return fail(l, fmt.Errorf("trusted func expected"))
				}
				rest = r
				cs.Scan["trusted"]++
			}
			reset()
			fc := &FuncContract{Pkg: pkg, Trusted: trusted, File: path, Line: l.line}
			// name [ (params) ]
			name := rest
			if i := strings.LastIndex(rest, " params("); i >= 0 {
				name = strings.TrimSpace(rest[:i])
				ps := strings.TrimSuffix(strings.TrimSpace(rest[i+8:]), ")")
				for _, p := range strings.Split(ps, ",") {
					if p = strings.TrimSpace(p); p != "" {
						fc.Params = append(fc.Params, p)
					}
				}
			}
			fc.Name = name
			key := pkg + "|" + name
			if trusted {
				key = "|" + name
			}
			if _, dup := cs.Funcs[key]; dup {
				return fail(l, fmt.Errorf("duplicate contract for %s", key))
			}
			cs.Funcs[key] = fc
			curF = fc
		case "results":
			if curF != nil {
				for _, p := range strings.Split(l.rest, ",") {
					curF.ResultName = append(curF.ResultName, strings.TrimSpace(p))
				}
			}
		case "atomic": // atomic Type.field self
			reset()
			fs := strings.Fields(l.rest)
			i := strings.LastIndex(fs[0], ".")
			curA = &AtomicObj{Pkg: pkg, Type: fs[0][:i], Field: fs[0][i+1:], Self: "self"}
			if len(fs) > 1 {
				curA.Self = fs[1]
			}
			cs.Atomics = append(cs.Atomics, curA)
		case "state":
			if curA == nil {
				return fail(l, fmt.Errorf("state outside atomic"))
			}
			for _, m := range strings.Split(l.rest, ",") {
				curA.State = append(curA.State, strings.TrimSpace(m))
			}
		case "rely":
			c, err := parseClause(l.rest)
			if err != nil {
				return fail(l, err)
			}
			if curM == nil {
				return fail(l, fmt.Errorf("rely outside monitor"))
			}
			curM.Rely = append(curM.Rely, c)
			cs.Scan["rely"]++
		case "guarantee":
			c, err := parseClause(l.rest)
			if err != nil {
				return fail(l, err)
			}
			if curM != nil {
				curM.Guar = append(curM.Guar, c)
				break
			}
			if curA == nil {
				return fail(l, fmt.Errorf("guarantee outside atomic/monitor"))
			}
			curA.Guar = append(curA.Guar, c)
		case "requires", "ensures", "ensures_panic", "invariant", "inv", "captured":
			c, err := parseClause(l.rest)
			if err != nil {
				return fail(l, err)
			}
			switch {
			case curLem != nil && l.kw == "requires":
				curLem.Req = append(curLem.Req, c)
			case curLem != nil && l.kw == "ensures":
				curLem.Ens = append(curLem.Ens, c)
			case curF != nil && l.kw == "captured":
				curF.Captured = append(curF.Captured, c)
			case curF != nil && l.kw == "requires":
				curF.Requires = append(curF.Requires, c)
			case curF != nil && l.kw == "ensures":
				curF.Ensures = append(curF.Ensures, c)
			case curF != nil && l.kw == "ensures_panic":
				curF.EnsuresP = append(curF.EnsuresP, c)
			case curL != nil && l.kw == "invariant":
				curL.Invariant = append(curL.Invariant, c)
			case curM != nil && l.kw == "inv":
				curM.Inv = append(curM.Inv, c)
			case curA != nil && l.kw == "inv":
				curA.Inv = append(curA.Inv, c)
			case curO != nil && l.kw == "inv":
				curO.Inv = append(curO.Inv, c)
			default:
				return fail(l, fmt.Errorf("%s outside a matching block", l.kw))
			}
		case "decreases":
			c, err := parseClause(l.rest)
			if err != nil {
				return fail(l, err)
			}
			if curL == nil {
				return fail(l, fmt.Errorf("decreases outside loop"))
			}
			curL.Decreases = &c
		case "modifies":
			var dst *[]string
			if curF != nil {
				dst = &curF.Modifies
			} else if curL != nil {
				dst = &curL.Modifies
			} else {
				return fail(l, fmt.Errorf("modifies outside func/loop"))
			}
			for _, m := range splitTop(l.rest) {
				if m = strings.TrimSpace(m); m != "" {
					*dst = append(*dst, m)
				}
			}
		case "universal":
			for _, m := range strings.Split(l.rest, ",") {
				curF.Universal = append(curF.Universal, strings.TrimSpace(m))
			}
		case "may_panic":
			curF.MayPanic = true
		case "noreturn":
			curF.NoReturn = true
		case "pure":
			curF.Pure = true
		case "inline":
			curF.Inline = true
			cs.Scan["inline"]++
		case "mode":
			for _, m := range strings.Split(l.rest, ",") {
				curF.Modes = append(curF.Modes, strings.TrimSpace(m))
			}
		case "props":
			var ps []string
			for _, m := range strings.Fields(strings.ReplaceAll(l.rest, ",", " ")) {
				ps = append(ps, m)
			}
			switch {
			case curF != nil:
				curF.Props = ps
			case curL != nil:
				curL.Props = ps
			case curLem != nil:
				curLem.Props = ps
			}
		case "loop":
			reset()
			i := strings.LastIndex(l.rest, "#")
			if i < 0 {
				return fail(l, fmt.Errorf("loop <func> #n"))
			}
			n, err := strconv.Atoi(strings.TrimSpace(l.rest[i+1:]))
			if err != nil {
				return fail(l, err)
			}
			curL = &LoopContract{Func: strings.TrimSpace(l.rest[:i]), Pkg: pkg, Ordinal: n}
			cs.Loops[fmt.Sprintf("%s|%s#%d", pkg, curL.Func, n)] = curL
		case "pred", "spec":
			reset()
			// pred name(a T, b T) := expr      spec name(a T) RetT := expr
			i := strings.Index(l.rest, ":=")
			if i < 0 {
				return fail(l, fmt.Errorf("pred needs :="))
			}
			head := strings.TrimSpace(l.rest[:i])
			body := strings.TrimSpace(l.rest[i+2:])
			lp := strings.Index(head, "(")
			rp := strings.LastIndex(head, ")")
			if lp < 0 || rp < lp {
				return fail(l, fmt.Errorf("pred head"))
			}
			pd := &PredDef{Name: strings.TrimSpace(head[:lp]), Pkg: pkg, Src: body}
			if strings.HasPrefix(pd.Name, "rec ") {
				pd.Rec = true
				pd.Name = strings.TrimSpace(pd.Name[4:])
			}
			pd.RetTyp = strings.TrimSpace(head[rp+1:])
			for _, p := range strings.Split(head[lp+1:rp], ",") {
				p = strings.TrimSpace(p)
				if p == "" {
					continue
				}
				nm, ty := firstWord(p)
				pd.Params = append(pd.Params, nm)
				pd.PTypes = append(pd.PTypes, ty)
			}
			e, err := ParseExpr(body)
			if err != nil {
				return fail(l, err)
			}
			pd.Body = e
			if _, dup := cs.Preds[pd.Name]; dup {
				return fail(l, fmt.Errorf("duplicate pred %s", pd.Name))
			}
			cs.Preds[pd.Name] = pd
		case "ghost":
			k, r := firstWord(l.rest)
			switch k {
			case "field": // ghost field Type.name sort
				a, sort := firstWord(r)
				i := strings.LastIndex(a, ".")
				cs.GFields = append(cs.GFields, GhostField{Type: a[:i], Name: a[i+1:], Sort: sort, Pkg: pkg})
			case "var":
				a, sort := firstWord(r)
				cs.GVars = append(cs.GVars, GhostVar{Name: a, Sort: sort, Pkg: pkg})
			case "entry", "exit", "after", "before", "release": // ghost entry|exit|after <callee>|release <mutex> [if cond ::] lhs := rhs
				if k == "after" || k == "before" || k == "release" {
					w, r2 := firstWord(r)
					k = k + ":" + w
					r = r2
				}
				if curF == nil {
					return fail(l, fmt.Errorf("ghost stmt outside func"))
				}
				r = strings.TrimSpace(strings.TrimPrefix(strings.TrimSpace(r), "::"))
				g := GhostStmt{At: k, Src: r}
				if strings.HasPrefix(r, "if ") {
					j := strings.Index(r, "::")
					c, err := ParseExpr(r[3:j])
					if err != nil {
						return fail(l, err)
					}
					g.Cnd = c
					r = strings.TrimSpace(r[j+2:])
				}
				j := strings.Index(r, ":=")
				lhs, err := ParseExpr(r[:j])
				if err != nil {
					return fail(l, err)
				}
				rhs, err := ParseExpr(r[j+2:])
				if err != nil {
					return fail(l, err)
				}
				g.LHS, g.RHS = lhs, rhs
				curF.Ghost = append(curF.Ghost, g)
			default:
				return fail(l, fmt.Errorf("ghost field|var|entry|exit"))
			}
		case "field": // field Type.f guarded_by Type.mutex | atomic | immutable   [props C12]
			reset()
			fs := strings.Fields(l.rest)
			if len(fs) < 2 {
				return fail(l, fmt.Errorf("field policy"))
			}
			i := strings.LastIndex(fs[0], ".")
			fp := FieldPolicy{Pkg: pkg, Type: fs[0][:i], Field: fs[0][i+1:], Policy: fs[1]}
			if fp.Policy == "guarded_by" {
				fp.Guard = fs[2]
			}
			cs.Policies = append(cs.Policies, fp)
		case "lockorder": // lockorder A.mu < B.mu < C.mu : a lock further left must never be acquired while one further right is held
			reset()
			var chain []LockRef
			for _, part := range strings.Split(l.rest, "<") {
				part = strings.TrimSpace(part)
				i := strings.LastIndex(part, ".")
				if i <= 0 {
					return fail(l, fmt.Errorf("lockorder wants Type.mutex < Type.mutex"))
				}
				chain = append(chain, LockRef{Pkg: pkg, Type: part[:i], Mutex: part[i+1:]})
			}
			cs.LockOrders = append(cs.LockOrders, chain)
		case "monitor": // monitor Type.mutex self
			reset()
			fs := strings.Fields(l.rest)
			i := strings.LastIndex(fs[0], ".")
			curM = &Monitor{Pkg: pkg, Type: fs[0][:i], Mutex: fs[0][i+1:], Self: "self"}
			if len(fs) > 1 {
				curM.Self = fs[1]
			}
			cs.Monitors = append(cs.Monitors, curM)
		case "guards":
			if curM == nil {
				return fail(l, fmt.Errorf("guards outside monitor"))
			}
			for _, m := range strings.Split(l.rest, ",") {
				curM.Guards = append(curM.Guards, strings.TrimSpace(m))
			}
		case "objinv": // objinv Type self
			reset()
			fs := strings.Fields(l.rest)
			curO = &ObjInv{Pkg: pkg, Type: fs[0], Self: "self"}
			if len(fs) > 1 {
				curO.Self = fs[1]
			}
			cs.ObjInvs = append(cs.ObjInvs, curO)
		case "lemma": // lemma name(a T, b T)
			reset()
			lp := strings.Index(l.rest, "(")
			rp := strings.LastIndex(l.rest, ")")
			curLem = &Lemma{Name: strings.TrimSpace(l.rest[:lp]), Pkg: pkg}
			for _, p := range strings.Split(l.rest[lp+1:rp], ",") {
				p = strings.TrimSpace(p)
				if p == "" {
					continue
				}
				nm, ty := firstWord(p)
				curLem.Params = append(curLem.Params, nm)
				curLem.PTypes = append(curLem.PTypes, ty)
			}
			cs.Lemmas = append(cs.Lemmas, curLem)
		case "induction":
			curLem.Induct = strings.TrimSpace(l.rest)
		case "uses":
			if curLem != nil {
				for _, m := range strings.Split(l.rest, ";") {
					curLem.Uses = append(curLem.Uses, strings.TrimSpace(m))
				}
			}
		case "hint":
			if curLem != nil {
				curLem.Hints = append(curLem.Hints, l.rest)
			}
		case "ufun": // ufun name(Sort, Sort) Sort
			reset()
			lp := strings.Index(l.rest, "(")
			rp := strings.LastIndex(l.rest, ")")
			u := UFun{Name: strings.TrimSpace(l.rest[:lp]), Ret: strings.TrimSpace(l.rest[rp+1:])}
			for _, a := range strings.Split(l.rest[lp+1:rp], ",") {
				if a = strings.TrimSpace(a); a != "" {
					u.Args = append(u.Args, a)
				}
			}
			cs.UFuns = append(cs.UFuns, u)
		case "axiom":
			reset()
			c, err := parseClause(l.rest)
			if err != nil {
				return fail(l, err)
			}
			cs.Axioms = append(cs.Axioms, c)
			cs.AxiomPkg = append(cs.AxiomPkg, pkg)
			cs.Scan["axiom"]++
		case "forwards": // forwards Type : http.Flusher, http.Hijacker
			reset()
			i := strings.Index(l.rest, ":")
			fw := Forward{Pkg: pkg, Type: strings.TrimSpace(l.rest[:i])}
			rest := l.rest[i+1:]
			if j := strings.Index(rest, " props "); j >= 0 {
				fw.Props = strings.Fields(rest[j+7:])
				rest = rest[:j]
			}
			for _, m := range strings.Split(rest, ",") {
				fw.Ifaces = append(fw.Ifaces, strings.TrimSpace(m))
			}
			cs.Forwards = append(cs.Forwards, fw)
		}
	}
	return nil
}
