package main

import (
	"fmt"
	"go/constant"
	"go/token"
	"go/types"
	"strings"

	"golang.org/x/tools/go/ssa"
)

// EvalCtx evaluates contract expressions against a symbolic state.
type EvalCtx struct {
	c        *FnCtx
	p        *Path
	env      map[string]Val
	heap     *HeapView
	old      *HeapView
	oldNow   string
	pkg      *types.Package
	ghostOld map[string]string
	depth    int
	inQuant  bool
	callsOv  map[string]string // calls(name) values inside an applied contract
	retOv    map[string]Val    // ret(name): what the function-valued argument returned
}

func (e *EvalCtx) fail(format string, a ...interface{}) Val {
	msg := fmt.Sprintf(format, a...)
	panic(contractError{msg})
}

type contractError struct{ msg string }

func boolVal(t string) Val { return Val{K: KBool, T: t, Typ: types.Typ[types.Bool]} }
func intVal(t string) Val  { return Val{K: KInt, T: t, Typ: types.Typ[types.Int]} }

func (e *EvalCtx) sub(env map[string]Val) *EvalCtx {
	n := *e
	n.env = env
	return &n
}

func (e *EvalCtx) withOld() *EvalCtx {
	n := *e
	if e.old != nil {
		n.heap = e.old
	}
	n.inOldFlag()
	return &n
}
func (e *EvalCtx) inOldFlag() {}

func (e *EvalCtx) eval(x Expr) Val {
	switch n := x.(type) {
	case EInt:
		return intVal(n.V)
	case EStr:
		return Val{K: KStr, T: smtStr(n.V), Typ: types.Typ[types.String]}
	case EBool:
		return boolVal(boolT(n.V))
	case ENil:
		return Val{K: KPtr, T: "0", Typ: types.Typ[types.UntypedNil]}
	case EIdent:
		return e.ident(n.Name)
	case EUn:
		v := e.eval(n.X)
		if n.Op == "!" {
			return boolVal("(not " + e.asBool(v) + ")")
		}
		return Val{K: KInt, T: "(- " + v.T + ")", Typ: v.Typ}
	case EBin:
		return e.bin(n)
	case ECond:
		c := e.asBool(e.eval(n.C))
		a, b := e.eval(n.A), e.eval(n.B)
		return e.ite(c, a, b)
	case EField:
		return e.field(e.eval(n.X), n.F)
	case EIndex:
		return e.index(e.eval(n.X), e.eval(n.I))
	case ECall:
		return e.call(n)
	case EQuant:
		return e.quant(n)
	}
	return e.fail("cannot evaluate %v", x)
}

func (e *EvalCtx) asBool(v Val) string {
	if v.K != KBool {
		e.fail("boolean expected, got %v", v)
	}
	return v.T
}

func (e *EvalCtx) ite(c string, a, b Val) Val {
	r := a
	switch a.K {
	case KSlice:
		r.T = fmt.Sprintf("(ite %s %s %s)", c, a.T, b.T)
		r.Len = fmt.Sprintf("(ite %s %s %s)", c, a.Len, b.Len)
		r.Cap = fmt.Sprintf("(ite %s %s %s)", c, a.Cap, b.Cap)
	case KIface:
		r.T = fmt.Sprintf("(ite %s %s %s)", c, a.T, b.T)
		r.IVal = fmt.Sprintf("(ite %s %s %s)", c, a.IVal, b.IVal)
		r.IStr = fmt.Sprintf("(ite %s %s %s)", c, a.IStr, b.IStr)
	default:
		r.T = fmt.Sprintf("(ite %s %s %s)", c, a.T, b.T)
	}
	return r
}

func (e *EvalCtx) ident(name string) Val {
	if v, ok := e.env[name]; ok {
		return v
	}
	// ghost variable
	for _, g := range e.c.eng.cs.GVars {
		if g.Name == name {
			key := "$g:" + name
			arr := e.c.heapGet(e.heap, key, g.Sort)
			t := fmt.Sprintf("(select %s 0)", arr)
			if strings.HasPrefix(g.Sort, "(Array ") {
				return sortVal(g.Sort, t)
			}
			switch g.Sort {
			case "Bool":
				return boolVal(t)
			case "String":
				return Val{K: KStr, T: t, Typ: types.Typ[types.String]}
			}
			return intVal(t)
		}
	}
	// package-level object
	if e.pkg != nil {
		if obj := e.pkg.Scope().Lookup(name); obj != nil {
			return e.object(obj)
		}
	}
	if _, ok := e.c.eng.allPkgs[name]; ok {
		return Val{K: KOpaque, T: "pkg:" + name}
	}
	if name == "TZERO" {
		return Val{K: KInt, T: "TZERO", Typ: e.c.eng.timeType}
	}
	if name == "MaxInt32" {
		return intVal("2147483647")
	}
	return e.fail("unknown identifier %s", name)
}

func (e *EvalCtx) object(obj types.Object) Val {
	switch o := obj.(type) {
	case *types.Const:
		switch o.Val().Kind() {
		case constant.Int:
			return Val{K: KInt, T: smtInt(o.Val().ExactString()), Typ: o.Type()}
		case constant.String:
			return Val{K: KStr, T: smtStr(constant.StringVal(o.Val())), Typ: o.Type()}
		case constant.Bool:
			return boolVal(boolT(constant.BoolVal(o.Val())))
		}
	case *types.Var:
		ptr := Val{K: KPtr, T: "1", Typ: types.NewPointer(o.Type()), Key: "global:" + pkgShort(o.Pkg()) + "." + o.Name()}
		return e.c.load(e.p, e.heap, ptr, o.Type())
	}
	return e.fail("unsupported package-level object %s", obj.Name())
}

func (e *EvalCtx) bin(n EBin) Val {
	switch n.Op {
	case "&&":
		return boolVal("(and " + e.asBool(e.eval(n.X)) + " " + e.asBool(e.eval(n.Y)) + ")")
	case "||":
		return boolVal("(or " + e.asBool(e.eval(n.X)) + " " + e.asBool(e.eval(n.Y)) + ")")
	case "==>":
		return boolVal("(=> " + e.asBool(e.eval(n.X)) + " " + e.asBool(e.eval(n.Y)) + ")")
	case "<==>":
		return boolVal("(= " + e.asBool(e.eval(n.X)) + " " + e.asBool(e.eval(n.Y)) + ")")
	}
	a, b := e.eval(n.X), e.eval(n.Y)
	switch n.Op {
	case "==":
		return boolVal(e.c.equal(a, b))
	case "!=":
		return boolVal("(not " + e.c.equal(a, b) + ")")
	case "++":
		return Val{K: KStr, T: "(str.++ " + a.T + " " + b.T + ")", Typ: types.Typ[types.String]}
	case "+":
		if a.K == KStr {
			return Val{K: KStr, T: "(str.++ " + a.T + " " + b.T + ")", Typ: a.Typ}
		}
		return Val{K: KInt, T: "(+ " + a.T + " " + b.T + ")", Typ: a.Typ}
	case "-":
		return Val{K: KInt, T: "(- " + a.T + " " + b.T + ")", Typ: a.Typ}
	case "*":
		return Val{K: KInt, T: "(* " + a.T + " " + b.T + ")", Typ: a.Typ}
	case "/": // truncated like Go; for a symbolic divisor the quotient is named and its defining facts stated
		q := fmt.Sprintf("(ite (>= %s 0) (div %s %s) (- (div (- %s) %s)))", a.T, a.T, b.T, a.T, b.T)
		if !isConstTerm(b.T) && !e.inQuant {
			key := "divw:" + a.T + "/" + b.T
			qq, ok := e.c.divw[key]
			if !ok {
				qq = e.c.fresh("cq", "Int")
				e.c.divw[key] = qq
				e.c.axiom(fmt.Sprintf("(= %s %s)", qq, q))
				e.c.axiom(fmt.Sprintf("(=> (and (> %s 0) (>= %s 0)) (and (<= (* %s %s) %s) (< %s (+ (* %s %s) %s))))", b.T, a.T, b.T, qq, a.T, a.T, b.T, qq, b.T))
			}
			q = qq
		}
		return Val{K: KInt, T: q, Typ: a.Typ}
	case "%":
		q := fmt.Sprintf("(ite (>= %s 0) (div %s %s) (- (div (- %s) %s)))", a.T, a.T, b.T, a.T, b.T)
		return Val{K: KInt, T: fmt.Sprintf("(- %s (* %s %s))", a.T, b.T, q), Typ: a.Typ}
	case "<", "<=", ">", ">=":
		if a.K == KStr {
			return e.fail("string ordering not supported in contracts")
		}
		return boolVal("(" + n.Op + " " + a.T + " " + b.T + ")")
	}
	return e.fail("operator %s", n.Op)
}

func derefType(t types.Type) types.Type {
	if t == nil {
		return nil
	}
	if p, ok := t.Underlying().(*types.Pointer); ok {
		return p.Elem()
	}
	return t
}

// ghostField looks up a ghost field declared for the (named) type of v.
func (e *EvalCtx) ghostField(ownerKey, f string) *GhostField {
	for i := range e.c.eng.cs.GFields {
		g := &e.c.eng.cs.GFields[i]
		if g.Name == f && e.c.eng.qualType(g.Pkg, g.Type) == ownerKey {
			return g
		}
	}
	return nil
}

func sortVal(srt, t string) Val {
	if strings.HasPrefix(srt, "(Array ") {
		inner := strings.TrimSuffix(strings.TrimPrefix(srt, "(Array "), ")")
		idx, el := splitSort(inner)
		return Val{K: KArr, T: t, Len: idx, Cap: el}
	}
	switch srt {
	case "Bool":
		return boolVal(t)
	case "String":
		return Val{K: KStr, T: t, Typ: types.Typ[types.String]}
	}
	return intVal(t)
}

func (e *EvalCtx) field(x Val, f string) Val {
	if x.K == KOpaque && strings.HasPrefix(x.T, "pkg:") {
		tp := e.c.eng.allPkgs[x.T[4:]]
		if obj := tp.Scope().Lookup(f); obj != nil {
			return e.object(obj)
		}
		return e.fail("no %s in package %s", f, x.T[4:])
	}
	switch x.K {
	case KStruct, KTuple:
		if st := structOf(x.Typ); st != nil {
			for i := 0; i < st.NumFields(); i++ {
				if st.Field(i).Name() == f {
					return x.Fs[i]
				}
			}
		}
		return e.fail("no field %s in struct value", f)
	case KPtr:
		et := derefType(x.Typ)
		if x.Typ == nil || et == nil {
			return e.fail("field %s of untyped pointer", f)
		}
		if st := structOf(et); st != nil && !isOpaqueExternal(et) {
			for i := 0; i < st.NumFields(); i++ {
				if st.Field(i).Name() == f {
					ptr := Val{K: KPtr, T: x.T, Idx: x.Idx, Typ: types.NewPointer(st.Field(i).Type()), Key: e.c.addrKey(x) + "." + f}
					if isOpaqueExternal(st.Field(i).Type()) {
						return ptr // opaque library object embedded by value: denote it by its address (ghost fields hang off it)
					}
					fv := e.c.load(e.p, e.heap, ptr, st.Field(i).Type())
					if !e.inQuant && fv.K == KSlice {
						e.c.axiom(fmt.Sprintf("(and (<= 0 %s) (<= %s %s) (< %s 4611686018427387904))", fv.Len, fv.Len, fv.Cap, fv.Cap))
					}
					if !e.inQuant && fv.K == KInt {
						// every value stored in a typed field is a value of that type
						if f := rangeFact(fv.T, st.Field(i).Type()); f != "" {
							e.c.axiom(f)
						}
					}
					return fv
				}
			}
		}
		owner := e.c.addrKey(x)
		if g := e.ghostField(typeKey(et), f); g != nil {
			key := owner + ".$" + f
			arr := e.c.heapGet(e.heap, key, g.Sort)
			return sortVal(g.Sort, fmt.Sprintf("(select %s %s)", arr, x.T))
		}
		return e.fail("no field %s in %s", f, et)
	case KIface:
		tk := typeKey(x.Typ)
		if tk == "net/http.Flusher" || tk == "net/http.Hijacker" {
			tk = "net/http.ResponseWriter" // optional interfaces of the same writer object share its abstract state
		}
		if g := e.ghostField(tk, f); g != nil {
			key := tk + ".$" + f
			arr := e.c.heapGet(e.heap, key, g.Sort)
			return sortVal(g.Sort, fmt.Sprintf("(select %s %s)", arr, x.IVal))
		}
		if f == "dyn" { // dynamic type tag
			return intVal(x.T)
		}
		if f == "ref" {
			return intVal(x.IVal)
		}
		return e.fail("no ghost field %s on interface %s", f, tk)
	case KOpaque:
		// opaque external struct value embedded in a struct we hold by pointer is reached via KPtr; here: ghost by id
		tk := typeKey(x.Typ)
		if g := e.ghostField(tk, f); g != nil {
			key := tk + ".$" + f
			arr := e.c.heapGet(e.heap, key, g.Sort)
			return sortVal(g.Sort, fmt.Sprintf("(select %s %s)", arr, x.T))
		}
	case KSlice:
		switch f {
		case "base":
			return intVal(x.T)
		}
	case KMap:
		tk := typeKey(x.Typ)
		if g := e.ghostField(tk, f); g != nil {
			key := tk + ".$" + f
			arr := e.c.heapGet(e.heap, key, g.Sort)
			return sortVal(g.Sort, fmt.Sprintf("(select %s %s)", arr, x.T))
		}
	}
	return e.fail("field %s on %v", f, x)
}

func splitSort(s string) (string, string) {
	s = strings.TrimSpace(s)
	depth := 0
	for i, ch := range s {
		switch ch {
		case '(':
			depth++
		case ')':
			depth--
		case ' ':
			if depth == 0 {
				return s[:i], strings.TrimSpace(s[i+1:])
			}
		}
	}
	return s, ""
}

func idxTerm(i Val, srt string) string {
	if i.K == KIface {
		if srt == "String" {
			return i.IStr
		}
		return i.IVal
	}
	return i.T
}

func (e *EvalCtx) index(x, i Val) Val {
	switch x.K {
	case KArr:
		return sortVal(x.Cap, fmt.Sprintf("(select %s %s)", x.T, idxTerm(i, x.Len)))
	case KSlice:
		et := elemTypeOf(x.Typ)
		if et == nil {
			return e.fail("index of untyped slice")
		}
		ptr := Val{K: KPtr, T: x.T, Idx: i.T, Typ: types.NewPointer(et), Key: elemKey(et)}
		return e.c.load(e.p, e.heap, ptr, et)
	case KMap:
		mt := x.Typ.Underlying().(*types.Map)
		base := typeKey(mt)
		kt := i.T
		return valFromLeaves(mt.Elem(), func(path, srt string) string {
			arr := e.c.heapGet(e.heap, base+"#val"+path, srt)
			return fmt.Sprintf("(select (select %s %s) %s)", arr, x.T, kt)
		})
	}
	return e.fail("indexing %v", x)
}

func (e *EvalCtx) quant(n EQuant) Val {
	t := e.c.eng.parseType(e.pkg, n.Typ)
	srt := "Int"
	var bv Val
	name := e.c.fresh("q_"+n.Var, "Int") // declared const doubles as a unique bound-variable name
	switch kindOf(t) {
	case KBool:
		srt = "Bool"
	case KStr:
		srt = "String"
	}
	// use a plain symbol (not declared) for the bound variable
	bvName := strings.TrimSuffix(strings.TrimPrefix(name, "|"), "|")
	bvName = "|b " + bvName + "|"
	switch kindOf(t) {
	case KBool:
		bv = boolVal(bvName)
	case KStr:
		bv = Val{K: KStr, T: bvName, Typ: t}
	case KPtr:
		bv = Val{K: KPtr, T: bvName, Typ: t}
	default:
		bv = Val{K: KInt, T: bvName, Typ: t}
	}
	env := map[string]Val{}
	for k, v := range e.env {
		env[k] = v
	}
	env[n.Var] = bv
	se := e.sub(env)
	se.inQuant = true
	body := se.asBool(se.eval(n.Body))
	pat := ""
	if len(n.Trig) > 0 {
		for _, grp := range n.Trig {
			ts := []string{}
			for _, tr := range grp {
				ts = append(ts, se.eval(tr).T)
			}
			pat += " :pattern (" + strings.Join(ts, " ") + ")"
		}
		body = "(! " + body + pat + ")"
	}
	q := "exists"
	if n.Forall {
		q = "forall"
	}
	return boolVal(fmt.Sprintf("(%s ((%s %s)) %s)", q, bvName, srt, body))
}

func (e *EvalCtx) call(n ECall) Val {
	arg := func(i int) Val {
		if i >= len(n.Args) {
			e.fail("%s: missing argument %d", n.F, i)
		}
		return e.eval(n.Args[i])
	}
	switch n.F {
	case "old":
		return e.withOld().eval(n.Args[0])
	case "len":
		a := arg(0)
		switch a.K {
		case KSlice:
			return intVal(a.Len)
		case KStr:
			return intVal("(str.len " + a.T + ")")
		case KMap:
			mt := a.Typ.Underlying().(*types.Map)
			la := e.c.heapGet(e.heap, typeKey(mt)+"#len", "Int")
			return intVal(fmt.Sprintf("(select %s %s)", la, a.T))
		}
		return e.fail("len of %v", a)
	case "cap":
		return intVal(arg(0).Cap)
	case "now":
		if e.heap == e.old && e.old != nil && e.oldNow != "" {
			return Val{K: KInt, T: e.oldNow, Typ: e.c.eng.timeType}
		}
		if e.p.now == "" {
			e.p.now = e.c.fresh("now0", "Int")
			e.p.assume("(>= " + e.p.now + " 0)")
		}
		return Val{K: KInt, T: e.p.now, Typ: e.c.eng.timeType}
	case "entry_now":
		return Val{K: KInt, T: e.c.entryNow, Typ: e.c.eng.timeType}
	case "calls":
		id, ok := n.Args[0].(EIdent)
		if !ok {
			e.fail("calls(name)")
		}
		k := "$calls:" + id.Name
		if e.callsOv != nil {
			if e.heap == e.old && e.old != nil {
				return intVal("0")
			}
			if t, ok := e.callsOv[id.Name]; ok {
				return intVal(t)
			}
		}
		if e.heap == e.old && e.old != nil {
			if t, ok := e.ghostOld[k]; ok {
				return intVal(t)
			}
			return intVal("0")
		}
		if t, ok := e.p.ghost[k]; ok {
			return intVal(t)
		}
		return intVal("0")
	case "ret": // ret(fn): the value the function-valued parameter fn returned (when it was called)
		id, ok := n.Args[0].(EIdent)
		if !ok {
			e.fail("ret(name)")
		}
		if e.retOv != nil {
			if v, ok := e.retOv[id.Name]; ok {
				return v
			}
		}
		if v, ok := e.p.fnret[id.Name]; ok {
			return v
		}
		// not called on this path: an arbitrary value of the parameter's result type
		for _, prm := range e.c.fn.Params {
			if sig, ok := prm.Type().Underlying().(*types.Signature); ok && prm.Name() == id.Name && sig.Results().Len() > 0 {
				return e.c.symbolic(e.p, "noret_"+id.Name, sig.Results().At(0).Type())
			}
		}
		return e.fail("ret(%s): no call of %s on this path", id.Name, id.Name)
	case "unlocked":
		return boolVal("(= " + arg(0).T + " 0)")
	case "rlocked":
		return boolVal("(>= " + arg(0).T + " 1)")
	case "wlocked":
		return boolVal("(= " + arg(0).T + " 2)")
	case "min":
		a, b := arg(0), arg(1)
		return Val{K: KInt, T: fmt.Sprintf("(ite (< %s %s) %s %s)", a.T, b.T, a.T, b.T), Typ: a.Typ}
	case "max":
		a, b := arg(0), arg(1)
		return Val{K: KInt, T: fmt.Sprintf("(ite (> %s %s) %s %s)", a.T, b.T, a.T, b.T), Typ: a.Typ}
	case "wrap64": // Go int/int64 wrap-around of a mathematical integer
		return Val{K: KInt, T: "(wrapS " + arg(0).T + " 9223372036854775808 18446744073709551616)", Typ: types.Typ[types.Int]}
	case "byteAt": // byteAt(s, i): the i-th byte of s (see lookup in exec.go)
		return intVal("(str.to_code (str.at " + arg(0).T + " " + arg(1).T + "))")
	case "hasPrefix":
		return boolVal("(str.prefixof " + arg(1).T + " " + arg(0).T + ")")
	case "hasSuffix":
		return boolVal("(str.suffixof " + arg(1).T + " " + arg(0).T + ")")
	case "contains":
		return boolVal("(str.contains " + arg(0).T + " " + arg(1).T + ")")
	case "indexOf":
		return intVal("(str.indexof " + arg(0).T + " " + arg(1).T + " 0)")
	case "substr":
		return Val{K: KStr, T: fmt.Sprintf("(str.substr %s %s %s)", arg(0).T, arg(1).T, arg(2).T), Typ: types.Typ[types.String]}
	case "bytesOf":
		arr := e.c.heapGet(e.heap, "$bytes", "String")
		return Val{K: KStr, T: fmt.Sprintf("(select %s %s)", arr, arg(0).T), Typ: types.Typ[types.String]}
	case "fresh":
		a := arg(0)
		oh := e.old
		if oh == nil {
			oh = e.heap
		}
		al, ok := oh.m["$alloc"]
		if !ok {
			al = e.c.allocT0()
		}
		return boolVal(fmt.Sprintf("(and (not (= %s 0)) (not %s))", a.T, inAl(al, a.T)))
	case "backing": // backing(x, []T): the content of backing store x as an array value (single-leaf element types)
		a := arg(0)
		t := e.c.eng.parseType(e.pkg, exprString(n.Args[1]))
		et := elemTypeOf(t)
		if et == nil || len(leavesOf(et)) != 1 {
			e.fail("backing() needs a slice type with scalar elements")
		}
		l := leavesOf(et)[0]
		arr := e.c.heapGet(e.heap, elemKey(et)+l.Path, l.Sort)
		return Val{K: KArr, T: fmt.Sprintf("(select %s %s)", arr, a.T), Len: "Int", Cap: l.Sort}
	case "preexisting": // allocated before the function under verification was entered
		a := arg(0)
		return boolVal(inAl(e.c.allocT0(), a.T))
	case "allocated":
		a := arg(0)
		al := e.c.heapGetAllocView(e.heap)
		return boolVal(inAl(al, a.T))
	case "dyntype": // dyntype(x, T): dynamic type of interface x is exactly T
		a := arg(0)
		id := exprString(n.Args[1])
		t := e.c.eng.parseType(e.pkg, id)
		if a.Dyn != nil {
			return boolVal(boolT(types.Identical(a.Dyn, t)))
		}
		return boolVal("(= " + a.T + " " + e.c.eng.typeTag(t) + ")")
	case "implements":
		a := arg(0)
		t := e.c.eng.parseType(e.pkg, exprString(n.Args[1]))
		if a.Dyn != nil {
			return boolVal(boolT(types.Implements(a.Dyn, t.Underlying().(*types.Interface))))
		}
		return boolVal(fmt.Sprintf("(and (not (= %s 0)) %s)", a.T, e.c.eng.implementsPred(e.c, a.T, t)))
	case "gfield": // gfield(ref, Type.field): ghost field of the object with reference ref
		a := arg(0)
		path := exprString(n.Args[1])
		i := strings.LastIndex(path, ".")
		tk := e.c.eng.qualType(pkgDirOf(e.pkg), path[:i])
		g := e.ghostField(tk, path[i+1:])
		if g == nil {
			e.fail("no ghost field %s", path)
		}
		ref := a.T
		if a.K == KIface {
			ref = a.IVal
		}
		arr := e.c.heapGet(e.heap, tk+".$"+path[i+1:], g.Sort)
		return sortVal(g.Sort, fmt.Sprintf("(select %s %s)", arr, ref))
	case "funcid": // funcid(name): identity of the Helios function (or closure) called name in this package
		name := exprString(n.Args[0])
		if sl, ok := n.Args[0].(EStr); ok {
			name = sl.V
		}
		fn := e.c.eng.fns[pkgDirOf(e.pkg)+"|"+name]
		if fn == nil {
			e.fail("funcid: no function %s", name)
		}
		return intVal(e.c.eng.fnID(fn))
	case "typetag":
		t := e.c.eng.parseType(e.pkg, exprString(n.Args[0]))
		if t == nil {
			e.fail("unknown type %s", exprString(n.Args[0]))
		}
		return intVal(e.c.eng.typeTag(t))
	case "boxlen": // boxlen(x): length of the slice held by interface value x
		return intVal("(box_len " + arg(0).IVal + ")")
	case "strval": // string payload of an interface value
		return Val{K: KStr, T: arg(0).IStr, Typ: types.Typ[types.String]}
	case "intval": // integer payload of an interface value
		return intVal(arg(0).IVal)
	case "ptr": // ptr(x): payload reference of an interface, or the pointer itself
		a := arg(0)
		if a.K == KIface {
			return intVal(a.IVal)
		}
		return intVal(a.T)
	case "asiface": // asiface(ref, I): the object with reference ref viewed through interface type I
		a := arg(0)
		t := e.c.eng.parseType(e.pkg, exprString(n.Args[1]))
		ref := a.T
		if a.K == KIface {
			ref = a.IVal
		}
		return Val{K: KIface, T: e.c.fresh("dyn", "Int"), IVal: ref, IStr: "\"\"", Typ: t}
	case "asptr": // asptr(x, *T): view interface payload as *T
		a := arg(0)
		t := e.c.eng.parseType(e.pkg, exprString(n.Args[1]))
		if a.K == KIface {
			return Val{K: KPtr, T: a.IVal, Typ: t}
		}
		return Val{K: KPtr, T: a.T, Typ: t}
	case "inv": // object invariant of the argument's static type
		a := arg(0)
		return boolVal(e.c.objInvOf(e, a))
	case "has": // has(m, k): key k present in map m
		m, k := arg(0), arg(1)
		mt, ok := m.Typ.Underlying().(*types.Map)
		if !ok {
			e.fail("has() needs a map")
		}
		pa := e.c.heapGet(e.heap, typeKey(mt)+"#present", "Bool")
		return boolVal(fmt.Sprintf("(and (not (= %s 0)) (select (select %s %s) %s))", m.T, pa, m.T, k.T))
	case "lockinv": // monitor invariants of the locks declared on the argument's type
		a := arg(0)
		return boolVal(e.c.lockInvOf(e, a))
	case "int":
		return arg(0)
	case "upd":
		a, i, v := arg(0), arg(1), arg(2)
		vt := v.T
		if v.K == KIface {
			vt = v.IVal
		}
		r := a
		r.T = fmt.Sprintf("(store %s %s %s)", a.T, idxTerm(i, a.Len), vt)
		return r
	}
	if pd, ok := e.c.eng.cs.Preds[n.F]; ok {
		if len(pd.Params) != len(n.Args) {
			e.fail("%s expects %d arguments", n.F, len(pd.Params))
		}
		if pd.Rec {
			return e.c.eng.recCall(e, pd, n)
		}
		if e.depth > 20 {
			e.fail("predicate expansion too deep (recursive?) at %s", n.F)
		}
		env := map[string]Val{}
		ppkg := e.c.eng.pkgByDir(pd.Pkg)
		for i, pn := range pd.Params {
			v := arg(i)
			if t := e.c.eng.parseType(ppkg, pd.PTypes[i]); t != nil && v.Typ == nil || (t != nil && kindOf(t) == KPtr && v.K == KInt) {
				v.Typ = t
				if kindOf(t) == KPtr {
					v.K = KPtr
				}
			}
			env[pn] = v
		}
		se := e.sub(env)
		se.depth = e.depth + 1
		if ppkg != nil {
			se.pkg = ppkg
		}
		return se.eval(pd.Body)
	}
	if uf, ok := e.c.eng.ufuns[n.F]; ok {
		ts := []string{}
		for i := range n.Args {
			a := arg(i)
			if a.K == KIface {
				ts = append(ts, a.IVal)
			} else {
				ts = append(ts, a.T)
			}
		}
		e.c.declareUF(uf)
		return sortVal(uf.ret, "("+uf.name+" "+strings.Join(ts, " ")+")")
	}
	return e.fail("unknown function %s in contract", n.F)
}

func exprString(x Expr) string { return x.String() }

func (c *FnCtx) heapGetAllocView(h *HeapView) string {
	if a, ok := h.m["$alloc"]; ok {
		return a
	}
	n := c.allocT0()
	h.m["$alloc"] = n
	return n
}

// ---------- contract application at call sites ----------

func (c *FnCtx) bindParams(fc *FuncContract, fn *ssa.Function, args []Val) map[string]Val {
	env := map[string]Val{}
	if fn != nil {
		i := 0
		for _, prm := range fn.Params {
			if i < len(args) {
				v := args[i]
				v.Typ = prm.Type()
				env[prm.Name()] = v
			}
			i++
		}
		for _, fv := range fn.FreeVars {
			if i < len(args) {
				env["&"+fv.Name()] = args[i]
			}
			i++
		}
	} else {
		for i, n := range fc.Params {
			if i < len(args) {
				env[n] = args[i]
			}
		}
	}
	c.eng.aliasEnv(fn, env)
	return env
}

// derefFreeVars makes captured variables readable by name (their current value).
func (c *FnCtx) derefFreeVars(p *Path, h *HeapView, fn *ssa.Function, env map[string]Val) {
	if fn == nil {
		return
	}
	for _, fv := range fn.FreeVars {
		ptr, ok := env["&"+fv.Name()]
		if !ok {
			continue
		}
		et := fv.Type().Underlying().(*types.Pointer).Elem()
		v := c.load(p, h, ptr, et)
		v.Origin = fv.Name()
		env[fv.Name()] = v
	}
}

func (c *FnCtx) evalClause(ec *EvalCtx, cl Clause, what string) (t string, ok bool) {
	defer func() {
		if r := recover(); r != nil {
			if ce, isCE := r.(contractError); isCE {
				c.note(fmt.Sprintf("contract error in %s [%s]: %s", what, cl.Src, ce.msg))
				c.eng.contractErrors = append(c.eng.contractErrors, fmt.Sprintf("%s [%s]: %s", what, cl.Src, ce.msg))
				t, ok = "false", false
				return
			}
			panic(r)
		}
	}()
	return ec.asBool(ec.eval(cl.E)), true
}

func clauseLabel(cl Clause, i int, kind string) string {
	if cl.Label != "" {
		return cl.Label
	}
	return fmt.Sprintf("%s%d", kind, i)
}

func (c *FnCtx) applyContract(p *Path, fc *FuncContract, fn *ssa.Function, args []Val, resT *types.Tuple, name string, pos token.Pos) []outcome {
	env := c.bindParams(fc, fn, args)
	for k, v := range c.extraEnv {
		if _, dup := env[k]; !dup {
			env[k] = v
		}
	}
	c.derefFreeVars(p, &p.heap, fn, env)
	pkg := c.eng.pkgByDir(fc.Pkg)
	if fn != nil && fn.Pkg != nil {
		pkg = fn.Pkg.Pkg
	}
	pre := &EvalCtx{c: c, p: p, env: env, heap: &p.heap, pkg: pkg}
	for i, cl := range fc.Requires {
		if cl.Seq && c.mode != "seq" {
			continue
		}
		t, _ := c.evalClause(pre, cl, "requires of "+name)
		c.oblige(p, "pre", shortName(name)+"."+clauseLabel(cl, i, "requires"), t, cl.Src, nil)
		p.assume(t)
	}
	// higher-order application: a function-valued parameter whose calls the contract counts, bound to a
	// closure known on this path. The callee calls it at most once (that is checked on the callee); here the
	// closure's own effect is obtained by running it, separately for "not called" and "called once".
	if fn != nil && !hoActive(p) {
		for i, prm := range fn.Params {
			if _, isSig := prm.Type().Underlying().(*types.Signature); !isSig || i >= len(args) || args[i].Fn == nil {
				continue
			}
			if !contractMentions(fc, "calls("+prm.Name()+")") {
				continue
			}
			return c.applyHO(p, fc, fn, args, resT, name, pos, env, pkg, prm.Name(), args[i])
		}
	}
	return c.finishContract(p, fc, fn, resT, name, env, pkg, nil, nil)
}

func hoActive(p *Path) bool { return false }

func contractMentions(fc *FuncContract, s string) bool {
	for _, cl := range fc.Ensures {
		if strings.Contains(strings.ReplaceAll(cl.Src, " ", ""), s) {
			return true
		}
	}
	for _, cl := range fc.EnsuresP {
		if strings.Contains(strings.ReplaceAll(cl.Src, " ", ""), s) {
			return true
		}
	}
	return false
}

func (c *FnCtx) applyHO(p *Path, fc *FuncContract, fn *ssa.Function, args []Val, resT *types.Tuple, name string, pos token.Pos,
	env map[string]Val, pkg *types.Package, pname string, fv Val) []outcome {
	var outs []outcome
	// not called
	qa := p.clone()
	for _, o := range c.finishContract(qa, fc, fn, resT, name, env, pkg, map[string]string{pname: "0"}, nil) {
		if !o.panic { // the callee's own panics come only from the callback
			outs = append(outs, o)
		}
	}
	// called once: pre-state for old() is the state before the callback ran
	oldH := p.heap.clone()
	oldNow := p.now
	for _, ob := range c.callFunction(p, fv.Fn, nil, fv.Bind, pos) {
		var rv Val
		if len(ob.ret) > 0 {
			rv = ob.ret[0]
		}
		ov := map[string]string{pname: "1"}
		rm := map[string]Val{pname: rv}
		if ob.panic {
			q := ob.p
			post := &EvalCtx{c: c, p: q, env: env, heap: &q.heap, old: &oldH, oldNow: oldNow, pkg: pkg, callsOv: ov}
			for _, m := range fc.Modifies {
				c.havocLoc(q, post, m)
			}
			for _, cl := range fc.EnsuresP {
				if cl.Seq && c.mode != "seq" {
					continue
				}
				if t, ok := c.evalClause(post, cl, "ensures_panic of "+name); ok {
					q.assume(t)
				}
			}
			outs = append(outs, outcome{p: q, panic: true})
			continue
		}
		for _, o := range c.finishContractOld(ob.p, fc, fn, resT, name, env, pkg, ov, rm, &oldH, oldNow) {
			if !o.panic {
				outs = append(outs, o)
			}
		}
	}
	return outs
}

func (c *FnCtx) finishContract(p *Path, fc *FuncContract, fn *ssa.Function, resT *types.Tuple, name string, env map[string]Val, pkg *types.Package,
	callsOv map[string]string, retOv map[string]Val) []outcome {
	return c.finishContractOld(p, fc, fn, resT, name, env, pkg, callsOv, retOv, nil, "")
}

func (c *FnCtx) finishContractOld(p *Path, fc *FuncContract, fn *ssa.Function, resT *types.Tuple, name string, env map[string]Val, pkg *types.Package,
	callsOv map[string]string, retOv map[string]Val, oldIn *HeapView, oldNowIn string) []outcome {
	pre := &EvalCtx{c: c, p: p, env: env, heap: &p.heap, pkg: pkg}
	old := p.heap.clone()
	oldNow := p.now
	if oldIn != nil {
		old = *oldIn
		oldNow = oldNowIn
	}
	ghostOld := map[string]string{}
	for k, v := range p.ghost {
		ghostOld[k] = v
	}
	if retOv == nil && fn != nil {
		retOv = map[string]Val{}
		for _, prm := range fn.Params {
			if sig, isSig := prm.Type().Underlying().(*types.Signature); isSig && sig.Results().Len() > 0 {
				retOv[prm.Name()] = c.symbolic(p, "ret_"+prm.Name(), sig.Results().At(0).Type())
			}
		}
	}
	if callsOv == nil {
		// calls(f) of function-valued parameters bound to values we cannot run: some non-negative count
		callsOv = map[string]string{}
		if fn != nil {
			for _, prm := range fn.Params {
				if _, isSig := prm.Type().Underlying().(*types.Signature); isSig {
					n := c.fresh("calls_"+prm.Name(), "Int")
					p.assume("(>= " + n + " 0)")
					callsOv[prm.Name()] = n
				}
			}
		}
	}
	// havoc what the callee may modify
	for _, m := range fc.Modifies {
		c.havocLoc(p, pre, m)
	}
	var uniPost []func(q *Path)
	for _, un := range fc.Universal {
		w, ok := env[un]
		if !ok {
			continue
		}
		uniPost = append(uniPost, c.universalClient(p, pre, w, name, &old))
	}
	readsClock := false
	for _, cl := range append(append([]Clause{}, fc.Ensures...), fc.EnsuresP...) {
		if strings.Contains(cl.Src, "now()") {
			readsClock = true
		}
	}
	if readsClock {
		// the callee takes a clock reading that its postcondition talks about: it becomes the latest reading
		if p.now != "" {
			t := c.fresh("now", "Int")
			p.assume(fmt.Sprintf("(and (>= %s %s) (<= %s 4611686018427387904))", t, p.now, t))
			p.now = t
		}
	}
	mk := func(q *Path, clauses []Clause) {
		for _, f := range uniPost {
			f(q)
		}
		post := &EvalCtx{c: c, p: q, env: env, heap: &q.heap, old: &old, oldNow: oldNow, pkg: pkg, ghostOld: ghostOld, callsOv: callsOv, retOv: retOv}
		for _, cl := range clauses {
			if cl.Seq && c.mode != "seq" {
				continue
			}
			if cl.Acq || cl.Mon {
				continue // a statement about the callee's critical section / interleavings, not about the caller's pre-state
			}
			t, ok := c.evalClause(post, cl, "ensures of "+name)
			if ok {
				q.assume(t)
			}
		}
	}
	var outs []outcome
	if fc.MayPanic {
		q := p.clone()
		mk(q, fc.EnsuresP)
		pv := c.symbolic(q, "panicval", types.NewInterfaceType(nil, nil))
		// the value may be nil: panic(nil) (modules below go 1.21) and runtime.Goexit both unwind with recover() == nil
		q.panicked = true
		q.panicVal = &pv
		outs = append(outs, outcome{p: q, panic: true})
	}
	if fc.NoReturn {
		return outs
	}
	var rs []Val
	for i := 0; i < resT.Len(); i++ {
		r := c.symbolic(p, "r_"+shortName(name), resT.At(i).Type())
		rs = append(rs, r)
		nm := resT.At(i).Name()
		if i < len(fc.ResultName) {
			nm = fc.ResultName[i]
		}
		if nm != "" && nm != "_" {
			env[nm] = r
		}
		env[fmt.Sprintf("result%d", i)] = r
		if i == 0 {
			env["result"] = r
		}
	}
	c.eng.aliasEnv(fn, env)
	mk(p, fc.Ensures)
	advanced := false
	for _, r := range rs {
		var ref string
		switch r.K {
		case KPtr, KSlice, KMap:
			ref = r.T
		case KIface:
			ref = r.IVal
		}
		if ref != "" {
			if !advanced {
				c.advanceAlloc(p)
				advanced = true
			}
			p.assume(fmt.Sprintf("(or (<= %s 1) %s)", ref, inAl(c.heapGetAlloc(p), ref)))
		}
	}
	outs = append(outs, outcome{p: p, ret: rs})
	return outs
}

// havocLoc: one entry of a modifies clause.
//
//	x.f      field f of the object x denotes          x.*   every field of that object
//	T.f      field f of every object of type T        T.*
//	elems(e) backing store of slice e                 ghost variable name         *  everything
func (c *FnCtx) havocLoc(p *Path, ec *EvalCtx, loc string) {
	for _, t := range c.resolveLoc(p, ec, loc) {
		c.havoc(&p.heap, t.prefix, t.ref)
	}
}

type locTarget struct{ prefix, ref string }

func (c *FnCtx) resolveLoc(p *Path, ec *EvalCtx, loc string) (out []locTarget) {
	defer func() {
		if r := recover(); r != nil {
			if ce, ok := r.(contractError); ok {
				c.eng.contractErrors = append(c.eng.contractErrors, "modifies "+loc+": "+ce.msg)
				out = []locTarget{{"*", ""}}
				return
			}
			panic(r)
		}
	}()
	loc = strings.TrimSpace(loc)
	if loc == "*" {
		c.havocAll(p)
		return nil
	}
	if strings.HasPrefix(loc, "key:") { // raw heap key, e.g. key:[]*loadbalancer.Backend (all backing stores of that element type)
		return []locTarget{{strings.TrimSpace(loc[4:]), ""}}
	}
	if strings.HasPrefix(loc, "mapof(") {
		x, err := ParseExpr(loc[6 : len(loc)-1])
		if err != nil {
			panic(contractError{err.Error()})
		}
		v := ec.eval(x)
		mt, ok := v.Typ.Underlying().(*types.Map)
		if !ok {
			panic(contractError{"mapof() needs a map"})
		}
		return []locTarget{{typeKey(mt), v.T}}
	}
	if strings.HasPrefix(loc, "elems(") {
		x, err := ParseExpr(loc[6 : len(loc)-1])
		if err != nil {
			panic(contractError{err.Error()})
		}
		v := ec.eval(x)
		et := elemTypeOf(v.Typ)
		return []locTarget{{elemKey(et), v.T}}
	}
	for _, g := range c.eng.cs.GVars {
		if g.Name == loc {
			c.heapGet(&p.heap, "$g:"+loc, g.Sort)
			return []locTarget{{"$g:" + loc, ""}}
		}
	}
	i := strings.LastIndex(loc, ".")
	if i < 0 {
		panic(contractError{"bad location " + loc})
	}
	head, f := loc[:i], loc[i+1:]
	first := head
	if j := strings.IndexAny(head, ".["); j >= 0 && !strings.Contains(head[:j], "(") {
		first = head[:j]
	}
	if _, isVar := ec.env[first]; isVar || strings.Contains(first, "(") {
		x, err := ParseExpr(head)
		if err != nil {
			panic(contractError{err.Error()})
		}
		v := ec.eval(x)
		// a field of a struct embedded by value: climb to the enclosing object, keep the inner path
		inner := ""
		for v.K == KStruct && strings.Contains(head, ".") {
			j := strings.LastIndex(head, ".")
			inner = head[j:] + inner
			head = head[:j]
			x, err = ParseExpr(head)
			if err != nil {
				panic(contractError{err.Error()})
			}
			v = ec.eval(x)
		}
		var prefix, ref string
		switch v.K {
		case KPtr:
			prefix, ref = c.addrKey(v), v.T
		case KMap:
			prefix, ref = typeKey(v.Typ), v.T
		case KIface:
			prefix, ref = typeKey(v.Typ), v.IVal
			if prefix == "net/http.Flusher" || prefix == "net/http.Hijacker" {
				prefix = "net/http.ResponseWriter"
			}
		default:
			panic(contractError{"modifies: " + head + " is not an object"})
		}
		prefix += inner
		if f == "*" {
			return []locTarget{{prefix, ref}}
		}
		// ghost or real field
		return []locTarget{{prefix + "." + f, ref}, {prefix + ".$" + f, ref}}
	}
	// type-level
	tk := c.eng.qualType(pkgDirOf(ec.pkg), head)
	if f == "*" {
		return []locTarget{{tk, ""}}
	}
	return []locTarget{{tk + "." + f, ""}, {tk + ".$" + f, ""}}
}

func pkgDirOf(p *types.Package) string {
	if p == nil {
		return ""
	}
	return strings.TrimPrefix(strings.TrimPrefix(p.Path(), heliosPrefix), "/")
}

// ---------- object invariants and monitors ----------

func (c *FnCtx) objInvOf(e *EvalCtx, a Val) string {
	var t types.Type
	self := a
	switch a.K {
	case KPtr:
		t = derefType(a.Typ)
	case KIface:
		if a.Dyn != nil {
			t = derefType(a.Dyn)
			if a.DynV != nil {
				self = *a.DynV
			}
		}
	}
	if t == nil {
		return "true"
	}
	tk := typeKey(t)
	parts := []string{}
	for _, oi := range c.eng.cs.ObjInvs {
		if c.eng.qualType(oi.Pkg, oi.Type) != tk {
			continue
		}
		se := e.sub(map[string]Val{oi.Self: self})
		se.pkg = c.eng.pkgByDir(oi.Pkg)
		for _, cl := range oi.Inv {
			parts = append(parts, se.asBool(se.eval(cl.E)))
		}
	}
	if len(parts) == 0 {
		return "true"
	}
	return "(and " + strings.Join(parts, " ") + ")"
}

func (c *FnCtx) lockInvOf(e *EvalCtx, a Val) string {
	t := derefType(a.Typ)
	if t == nil {
		return "true"
	}
	tk := typeKey(t)
	parts := []string{}
	for _, mon := range c.eng.cs.Monitors {
		if c.eng.qualType(mon.Pkg, mon.Type) != tk {
			continue
		}
		se := e.sub(map[string]Val{mon.Self: a})
		se.pkg = c.eng.pkgByDir(mon.Pkg)
		for _, cl := range mon.Inv {
			parts = append(parts, se.asBool(se.eval(cl.E)))
		}
	}
	if len(parts) == 0 {
		return "true"
	}
	return "(and " + strings.Join(parts, " ") + ")"
}

func (c *FnCtx) monitorOf(key string) *Monitor {
	for _, m := range c.eng.cs.Monitors {
		if c.eng.qualType(m.Pkg, m.Type)+"."+m.Mutex == key {
			return m
		}
	}
	return nil
}

// monitorAcquire: other threads may have changed the guarded fields; all we know is the monitor invariant.
func (c *FnCtx) monitorAcquire(p *Path, key string, m Val) {
	mon := c.monitorOf(key)
	if mon == nil {
		return
	}
	tk := c.eng.qualType(mon.Pkg, mon.Type)
	if c.mode == "mon" {
		for _, g := range mon.Guards {
			c.havoc(&p.heap, tk+"."+g, m.T)
			c.havoc(&p.heap, tk+".$"+g, m.T)
		}
		// other threads may have allocated: the allocation set grows, and every reference another thread left
		// in a guarded field denotes an object that exists now (so it differs from anything allocated later)
		al2 := c.advanceAlloc(p)
		if st := structOf(c.eng.parseType(c.eng.pkgByDir(mon.Pkg), mon.Type)); st != nil {
			for i := 0; i < st.NumFields(); i++ {
				f := st.Field(i)
				guarded := false
				for _, g := range mon.Guards {
					guarded = guarded || g == f.Name()
				}
				if !guarded {
					continue
				}
				for _, l := range leavesOf(f.Type()) {
					if !refLeaf(l) {
						continue
					}
					key := tk + "." + f.Name() + l.Path
					if strings.HasPrefix(key, "[]") || strings.HasPrefix(key, "map[") {
						continue
					}
					v := fmt.Sprintf("(select %s %s)", c.heapGet(&p.heap, key, "Int"), m.T)
					p.assume(fmt.Sprintf("(or (<= %s 1) %s)", v, inAl(al2, v)))
				}
			}
		}
	}
	self := Val{K: KPtr, T: m.T, Typ: types.NewPointer(c.eng.parseType(c.eng.pkgByDir(mon.Pkg), mon.Type))}
	ec := &EvalCtx{c: c, p: p, env: map[string]Val{mon.Self: self}, heap: &p.heap, pkg: c.eng.pkgByDir(mon.Pkg)}
	for _, cl := range mon.Inv {
		t, ok := c.evalClause(ec, cl, "monitor "+key)
		if ok {
			p.assume(t)
		}
	}
	for _, cl := range mon.Rely {
		if c.mode != "mon" {
			break // sequential proofs know the state at acquisition from the precondition
		}
		t, ok := c.evalClause(ec, cl, "monitor rely "+key)
		if ok {
			p.assume(t)
			c.note("environment assumption at acquisition of " + key + " (not checked at release): " + cl.Src)
		}
	}
	if len(mon.Guar) > 0 {
		if p.acq == nil {
			p.acq = map[string]HeapView{}
		}
		p.acq[key+"@"+m.T] = p.heap.clone()
	}
}

func (c *FnCtx) monitorRelease(p *Path, key string, m Val, mode int) {
	mon := c.monitorOf(key)
	if mon == nil || mode != 2 {
		return
	}
	c.runGhostAt(p, "release:"+mon.Mutex)
	self := Val{K: KPtr, T: m.T, Typ: types.NewPointer(c.eng.parseType(c.eng.pkgByDir(mon.Pkg), mon.Type))}
	ec := &EvalCtx{c: c, p: p, env: map[string]Val{mon.Self: self}, heap: &p.heap, pkg: c.eng.pkgByDir(mon.Pkg)}
	for i, cl := range mon.Inv {
		t, _ := c.evalClause(ec, cl, "monitor "+key)
		c.oblige(p, "mon_release", shortKey(key)+"."+clauseLabel(cl, i, "inv"), t, cl.Src, cl.Props)
	}
	if snap, ok := p.acq[key+"@"+m.T]; ok {
		gc := &EvalCtx{c: c, p: p, env: map[string]Val{mon.Self: self}, heap: &p.heap, old: &snap, pkg: c.eng.pkgByDir(mon.Pkg)}
		for i, cl := range mon.Guar {
			t, _ := c.evalClause(gc, cl, "guarantee "+key)
			c.oblige(p, "guarantee", shortKey(key)+"."+clauseLabel(cl, i, "guar"), t, cl.Src, cl.Props)
		}
	}
}

var _ = ssa.Function{}

// universalClient: the callee may call any methods of object w any number of times. If w is a Helios wrapper
// (dynamic type known on this path) its object invariant must hold now, its fields and the abstract state of
// the writer it wraps become unknown, and the invariant holds again afterwards (every method is separately
// proved to preserve it). For an abstract ResponseWriter only the net/http stability facts remain.
func (c *FnCtx) universalClient(p *Path, pre *EvalCtx, w Val, name string, old *HeapView) func(q *Path) {
	rwKey := "net/http.ResponseWriter"
	stab := func(q *Path, ref string) {
		get := func(h *HeapView, f, srt string) string {
			return fmt.Sprintf("(select %s %s)", c.heapGet(h, rwKey+".$"+f, srt), ref)
		}
		q.assume(fmt.Sprintf("(=> %s (and %s (= %s %s)))", get(old, "committed", "Bool"), get(&q.heap, "committed", "Bool"), get(&q.heap, "status", "Int"), get(old, "status", "Int")))
		q.assume(fmt.Sprintf("(>= %s %s)", get(&q.heap, "bodyLen", "Int"), get(old, "bodyLen", "Int")))
		q.assume(fmt.Sprintf("(=> %s %s)", get(old, "hijacked", "Bool"), get(&q.heap, "hijacked", "Bool")))
	}
	havocRW := func(ref string) {
		for _, f := range []string{"committed", "status", "bodyLen", "hijacked", "flushes"} {
			srt := "Int"
			if f == "committed" || f == "hijacked" {
				srt = "Bool"
			}
			c.heapGet(&p.heap, rwKey+".$"+f, srt)
			c.havoc(&p.heap, rwKey+".$"+f, ref)
		}
	}
	if w.K != KIface {
		return func(q *Path) {}
	}
	if w.Dyn == nil || w.DynV == nil || w.DynV.K != KPtr || !isHeliosPkg(typePkg(derefType(w.Dyn))) {
		havocRW(w.IVal)
		return func(q *Path) { stab(q, w.IVal) }
	}
	self := *w.DynV
	st := derefType(w.Dyn)
	inv := c.objInvOf(pre, w)
	c.oblige(p, "pre", shortName(name)+".object_invariant_of_"+shortName(typeKey(st)), inv, "the wrapper handed to the inner handler satisfies its object invariant", nil)
	p.assume(inv)
	// underlying writer: the embedded http.ResponseWriter field
	var under *Val
	if s := structOf(st); s != nil {
		for i := 0; i < s.NumFields(); i++ {
			if s.Field(i).Embedded() && kindOf(s.Field(i).Type()) == KIface {
				ptr := Val{K: KPtr, T: self.T, Typ: types.NewPointer(s.Field(i).Type()), Key: c.addrKey(self) + "." + s.Field(i).Name()}
				u := c.load(p, &p.heap, ptr, s.Field(i).Type())
				under = &u
			}
		}
	}
	tk := c.addrKey(self)
	if s := structOf(st); s != nil {
		for i := 0; i < s.NumFields(); i++ {
			f := s.Field(i)
			if f.Embedded() && kindOf(f.Type()) == KIface {
				continue // the wrapped writer itself is never reassigned by the methods (checked by their frames)
			}
			if !c.eng.someMethodModifies(st, f.Name()) {
				continue // no method's frame allows writing this field
			}
			for _, l := range leavesOf(f.Type()) {
				c.heapGet(&p.heap, tk+"."+f.Name()+l.Path, l.Sort)
			}
			c.havoc(&p.heap, tk+"."+f.Name(), self.T)
		}
	}
	for _, g := range c.eng.cs.GFields {
		if c.eng.qualType(g.Pkg, g.Type) == typeKey(st) && c.eng.someMethodModifies(st, g.Name) {
			c.heapGet(&p.heap, tk+".$"+g.Name, g.Sort)
			c.havoc(&p.heap, tk+".$"+g.Name, self.T)
		}
	}
	if under != nil {
		havocRW(under.IVal)
	}
	return func(q *Path) {
		if under != nil {
			stab(q, under.IVal)
		}
		ec := &EvalCtx{c: c, p: q, env: pre.env, heap: &q.heap, pkg: pre.pkg}
		q.assume(c.objInvOf(ec, w))
	}
}

func typePkg(t types.Type) *types.Package {
	if n, ok := types.Unalias(t).(*types.Named); ok {
		return n.Obj().Pkg()
	}
	return nil
}
