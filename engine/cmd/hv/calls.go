package main

import (
	"fmt"
	"go/token"
	"go/types"
	"strings"

	"golang.org/x/tools/go/ssa"
)

func (c *FnCtx) doCall(p *Path, call *ssa.CallCommon, instr ssa.Value, pos token.Pos) []outcome {
	var args []Val
	for _, a := range call.Args {
		args = append(args, c.val(p, a))
	}
	fnv := c.val(p, call.Value)
	return c.doCallVals(p, call, fnv, args, pos, false)
}

func fullName(fn *ssa.Function) string {
	if fn.Pkg == nil {
		// synthetic wrappers / methods of instantiated types
		return fn.String()
	}
	return fn.String()
}

// relName: name as used in contract files (RelString inside its own package)
func relName(fn *ssa.Function) string {
	if fn.Pkg != nil {
		return fn.RelString(fn.Pkg.Pkg)
	}
	return fn.String()
}

func (c *FnCtx) doCallVals(p *Path, call *ssa.CallCommon, fnv Val, args []Val, pos token.Pos, isDefer bool) []outcome {
	// builtins
	if b, ok := call.Value.(*ssa.Builtin); ok {
		return c.builtin(p, b, call, args)
	}
	resT := call.Signature().Results()
	if call.IsInvoke() {
		recv := fnv
		mname := call.Method.Name()
		c.runGhostAt(p, "before:"+mname)
		if recv.Origin != "" {
			c.bumpCalls(p, recv.Origin)
		}
		c.checkNonNilIface(p, recv, "method call "+mname)
		// statically known dynamic type → concrete method
		if recv.Dyn != nil {
			if m := c.eng.prog.LookupMethod(recv.Dyn, call.Method.Pkg(), mname); m != nil && isHeliosPkg(pkgOf(m)) {
				var rv Val
				if recv.DynV != nil {
					rv = *recv.DynV
				}
				return c.callFunction(p, m, append([]Val{rv}, args...), nil, pos)
			}
		}
		// interface-level contract
		it := call.Value.Type()
		name := "(" + typeKey(it) + ")." + mname
		if fc := c.eng.lookupSpec(name); fc != nil {
			return c.applyContract(p, fc, nil, append([]Val{recv}, args...), resT, name, pos)
		}
		// sealed interface (defined in Helios, all implementations in Helios): case split over them
		if impls := c.eng.implementations(it); len(impls) > 0 {
			var outs []outcome
			var tags []string
			for _, impl := range impls {
				tags = append(tags, "(= "+recv.T+" "+c.eng.typeTag(impl)+")")
			}
			p.assume("(or " + strings.Join(tags, " ") + ")") // closed world: listed as an assumption
			c.note("sealed interface " + typeKey(it) + ": dynamic type assumed to be one of its " + fmt.Sprint(len(impls)) + " implementations in the Helios module")
			known := -1
			if k, ok := p.ghost["$dyn:"+recv.T]; ok {
				fmt.Sscan(k, &known) // this path already fixed the dynamic type of this interface value
			}
			for i, impl := range impls {
				m := c.eng.prog.LookupMethod(impl, call.Method.Pkg(), mname)
				if m == nil || (known >= 0 && i != known) {
					continue
				}
				q := p
				if i < len(impls)-1 && known < 0 {
					q = p.clone()
				}
				q.ghost["$dyn:"+recv.T] = fmt.Sprint(i)
				q.assume(tags[i])
				q.trace = append(q.trace, "dyn="+typeKey(impl))
				rv := Val{K: KPtr, T: recv.IVal, Typ: impl}
				if kindOf(impl) != KPtr {
					rv = c.symbolic(q, "recv", impl)
				}
				outs = append(outs, c.callFunction(q, m, append([]Val{rv}, args...), nil, pos)...)
			}
			return outs
		}
		c.defaults[name] = true
		return c.defaultCall(p, resT, name)
	}
	if fn := call.StaticCallee(); fn != nil {
		var binds []Val
		if fnv.Fn == fn {
			binds = fnv.Bind
		}
		return c.callFunction(p, fn, args, binds, pos)
	}
	// function value
	if fnv.Fn != nil {
		return c.callFunction(p, fnv.Fn, args, fnv.Bind, pos)
	}
	// unknown function value: universal callee
	origin := fnv.Origin
	if origin == "" {
		// a local variable holding the function value
		for n, v := range p.top().named {
			if v.K == KFunc && v.T == fnv.T {
				origin = n
			}
		}
	}
	if origin == "" {
		origin = "?"
	}
	c.checkNonNil(p, fnv.T, "call of nil func")
	c.bumpCalls(p, origin)
	c.runGhostAt(p, "before:"+origin)
	name := "funcvalue:" + origin
	if fc := c.eng.lookupFuncValueSpec(p.top().fn, origin); fc != nil {
		c.extraEnv = c.frameEnv(p, p.top(), nil)
		outs := c.applyContract(p, fc, nil, args, resT, name, pos)
		c.extraEnv = nil
		for _, o := range outs {
			if !o.panic && len(o.ret) > 0 {
				if o.p.fnret == nil {
					o.p.fnret = map[string]Val{}
				}
				o.p.fnret[origin] = o.ret[0]
			}
			if !o.panic {
				if len(o.ret) > 0 {
					c.ghostRet = &o.ret[0]
				}
				c.runGhostAt(o.p, "after:"+origin)
				c.ghostRet = nil
			}
		}
		return outs
	}
	c.defaults[name] = true
	c.note("call of unknown function value '" + origin + "' in " + c.fn.Name() + ": assumed not to modify state this function can observe; may panic")
	outs := c.defaultCall(p.clone(), resT, name)
	// may panic
	q := p
	pv := c.symbolic(q, "panicval", types.NewInterfaceType(nil, nil))
	// the value may be nil: panic(nil) (modules below go 1.21) and runtime.Goexit both unwind with recover() == nil
	q.panicked = true
	q.panicVal = &pv
	outs = append(outs, outcome{p: q, panic: true})
	return outs
}

func pkgOf(fn *ssa.Function) *types.Package {
	if fn.Pkg != nil {
		return fn.Pkg.Pkg
	}
	if fn.Object() != nil {
		return fn.Object().Pkg()
	}
	return nil
}

func (c *FnCtx) checkNonNilIface(p *Path, v Val, what string) {
	if v.K != KIface || v.Dyn != nil {
		return
	}
	if p.nonnil["i:"+v.T] {
		return
	}
	c.oblige(p, "safe", "nil_deref", fmt.Sprintf("(not (= %s 0))", v.T), what, nil)
	p.assume(fmt.Sprintf("(not (= %s 0))", v.T))
	p.nonnil["i:"+v.T] = true
}

func (c *FnCtx) bumpCalls(p *Path, origin string) {
	k := "$calls:" + origin
	cur, ok := p.ghost[k]
	if !ok {
		cur = "0"
	}
	p.ghost[k] = "(+ " + cur + " 1)"
}

func (c *FnCtx) defaultCall(p *Path, resT *types.Tuple, name string) []outcome {
	var rs []Val
	for i := 0; i < resT.Len(); i++ {
		rs = append(rs, c.symbolic(p, "r_"+shortName(name), resT.At(i).Type()))
	}
	return []outcome{{p: p, ret: rs}}
}

func shortName(s string) string {
	if i := strings.LastIndexAny(s, "./)"); i >= 0 && i+1 < len(s) {
		return s[i+1:]
	}
	return s
}

// callFunction: static callee (Helios or external), with closure bindings if any.
func (c *FnCtx) callFunction(p *Path, fn *ssa.Function, args []Val, binds []Val, pos token.Pos) []outcome {
	name := fullName(fn)
	resT := fn.Signature.Results()
	c.runGhostAt(p, "before:"+fn.Name())
	if outs, ok := c.special(p, fn, name, args); ok {
		return outs
	}
	helios := isHeliosPkg(pkgOf(fn))
	// method receivers must be non-nil when the callee dereferences them (checked at the call site)
	if helios && fn.Signature.Recv() != nil && len(args) > 0 && args[0].K == KPtr {
		c.checkNonNil(p, args[0].T, "nil receiver for "+fn.Name())
	}
	if helios {
		fc := c.eng.contractOf(fn)
		if fc != nil && !fc.Inline {
			c.usedContracts[pkgShort(fn.Pkg.Pkg)+"."+relName(fn)] = len(fc.Props) > 0
			outs := c.applyContract(p, fc, fn, append(append([]Val{}, args...), binds...), resT, relName(fn), pos)
			for _, o := range outs {
				if !o.panic {
					c.runGhostAt(o.p, "after:"+fn.Name())
				}
			}
			return outs
		}
		// closures defined in the function under verification, and small leaf helpers, are executed in place
		if fc != nil && fc.Inline || c.eng.inlinable(fn, c.fn) {
			if p.depth < maxDepth && !c.onStack(p, fn) {
				c.inlined[relName(fn)] = true
				return c.inline(p, fn, args, binds)
			}
		}
		c.note("call to " + relName(fn) + " without contract: results and all state it may touch are havocked")
		c.havocAll(p)
		return c.defaultCall(p, resT, name)
	}
	// external
	if fc := c.eng.lookupSpec(name); fc != nil {
		c.trusted[name] = true
		var ao *AtomicObj
		var aoOld HeapView
		if c.mode == "mon" && len(args) > 0 && args[0].K == KPtr && args[0].Key != "" {
			if ao = c.atomicFor(args[0].Key); ao != nil {
				c.atomicInterfere(p, ao, args[0])
				aoOld = p.heap.clone()
			}
		}
		outs := c.applyContract(p, fc, nil, args, resT, name, pos)
		if ao != nil {
			for _, o := range outs {
				c.atomicCheck(o.p, ao, args[0], &aoOld, shortName(name))
			}
		}
		for _, o := range outs {
			if !o.panic {
				if len(o.ret) > 0 {
					c.ghostRet = &o.ret[0]
				}
				c.runGhostAt(o.p, "after:"+fn.Name())
				c.ghostRet = nil
			}
		}
		return outs
	}
	c.defaults[name] = true
	return c.defaultCall(p, resT, name)
}

func (c *FnCtx) onStack(p *Path, fn *ssa.Function) bool {
	for _, f := range p.frames {
		if f.fn == fn {
			return true
		}
	}
	return false
}

func (c *FnCtx) havocAll(p *Path) {
	for _, k := range sortedKeys(p.heap.m) {
		if strings.HasPrefix(k, "$") {
			continue
		}
		p.heap.m[k] = c.fresh("Hh "+k, arraySort(k, c.heapSort[k]))
	}
	c.nfresh++
	p.heap.lazy = append(p.heap.lazy, lazyH{id: c.nfresh, prefix: "*"})
}

func (c *FnCtx) inline(p *Path, fn *ssa.Function, args []Val, binds []Val) []outcome {
	if len(fn.Blocks) == 0 {
		return c.defaultCall(p, fn.Signature.Results(), fullName(fn))
	}
	fr := &frame{fn: fn, regs: map[ssa.Value]Val{}, entered: map[*ssa.BasicBlock]*loopEntry{}}
	for i, prm := range fn.Params {
		if i < len(args) {
			v := args[i]
			v.Typ = prm.Type()
			fr.regs[prm] = v
		}
	}
	for i, fv := range fn.FreeVars {
		if i < len(binds) {
			fr.regs[fv] = binds[i]
		}
	}
	p.frames = append(p.frames, fr)
	p.depth++
	outs := c.execFrom(p, fn.Blocks[0], 0)
	var res []outcome
	for _, o := range outs {
		o.p.frames = o.p.frames[:len(o.p.frames)-1]
		o.p.depth--
		res = append(res, o)
	}
	return res
}

// ---------- builtins ----------

func (c *FnCtx) builtin(p *Path, b *ssa.Builtin, call *ssa.CallCommon, args []Val) []outcome {
	one := func(v Val) []outcome { return []outcome{{p: p, ret: []Val{v}}} }
	intT := types.Typ[types.Int]
	switch b.Name() {
	case "len":
		a := args[0]
		switch a.K {
		case KSlice:
			return one(Val{K: KInt, T: a.Len, Typ: intT})
		case KStr:
			p.assume("(< (str.len " + a.T + ") 4611686018427387904)")
			return one(Val{K: KInt, T: "(str.len " + a.T + ")", Typ: intT})
		case KMap:
			mt := call.Args[0].Type().Underlying().(*types.Map)
			la := c.heapGet(&p.heap, typeKey(mt)+"#len", "Int")
			t := fmt.Sprintf("(ite (= %s 0) 0 (select %s %s))", a.T, la, a.T)
			p.assume("(>= " + t + " 0)")
			return one(Val{K: KInt, T: t, Typ: intT})
		}
	case "cap":
		if args[0].K == KSlice {
			return one(Val{K: KInt, T: args[0].Cap, Typ: intT})
		}
	case "append":
		s := args[0]
		st := call.Args[0].Type()
		et := elemTypeOf(st)
		if et == nil || s.K != KSlice {
			break
		}
		// SSA passes the variadic part as a slice; recover its elements when it was built in place
		more := args[1]
		if more.K == KSlice {
			if n, ok := constInt(more.Len); ok && n >= 0 && n <= 8 {
				var es []Val
				for i := 0; i < n; i++ {
					ptr := Val{K: KPtr, T: more.T, Idx: fmt.Sprint(i), Key: elemKey(et)}
					es = append(es, c.load(p, &p.heap, ptr, et))
				}
				return one(c.appendVals(p, s, es, et, "app"))
			}
		}
		c.note("append of a slice of unknown length in " + c.fn.Name() + ": result havocked")
	case "copy":
		dst, src := args[0], args[1]
		if dst.K == KSlice && src.K == KSlice {
			et := elemTypeOf(call.Args[0].Type())
			n := fmt.Sprintf("(ite (< %s %s) %s %s)", dst.Len, src.Len, dst.Len, src.Len)
			for _, l := range leavesOf(et) {
				key := elemKey(et) + l.Path
				arr := c.heapGet(&p.heap, key, l.Sort)
				na := c.fresh("copy "+key, "(Array Int "+l.Sort+")")
				k := c.fresh("ck", "Int")
				// copied prefix equals source; the rest keeps destination: stated for all indices via a quantifier
				p.assume(fmt.Sprintf("(forall ((%s Int)) (! (= (select %s %s) (ite (and (<= 0 %s) (< %s %s)) (select (select %s %s) %s) (select (select %s %s) %s))) :pattern ((select %s %s))))",
					k, na, k, k, k, n, arr, src.T, k, arr, dst.T, k, na, k))
				p.heap.m[key] = fmt.Sprintf("(store %s %s %s)", arr, dst.T, na)
			}
			return one(Val{K: KInt, T: n, Typ: intT})
		}
	case "delete":
		m, k := args[0], args[1]
		mt := call.Args[0].Type().Underlying().(*types.Map)
		base := typeKey(mt)
		pa := c.heapGet(&p.heap, base+"#present", "Bool")
		la := c.heapGet(&p.heap, base+"#len", "Int")
		kt := k.T
		was := fmt.Sprintf("(select (select %s %s) %s)", pa, m.T, kt)
		p.heap.m[base+"#len"] = fmt.Sprintf("(store %s %s (ite %s (- (select %s %s) 1) (select %s %s)))", la, m.T, was, la, m.T, la, m.T)
		p.heap.m[base+"#present"] = fmt.Sprintf("(store %s %s (store (select %s %s) %s false))", pa, m.T, pa, m.T, kt)
		return []outcome{{p: p}}
	case "close":
		// close(ch) panics on a nil channel and on a channel that is already closed; afterwards the channel is closed
		// (the same ghost the cancellation poll reads)
		ch := args[0]
		arr := c.heapGet(&p.heap, "$g:chanClosed", "(Array Int Bool)")
		c.oblige(p, "safe", "close_of_nil_or_closed_channel", fmt.Sprintf("(and (not (= %s 0)) (not (select (select %s 0) %s)))", ch.T, arr, ch.T),
			"close of a channel that is nil or may already be closed (the second close panics)", nil)
		p.heap.m["$g:chanClosed"] = fmt.Sprintf("(store %s 0 (store (select %s 0) %s true))", arr, arr, ch.T)
		return []outcome{{p: p}}
	case "recover":
		fr := p.top()
		// recover() is meaningful in a deferred closure: look at the frame that is running defers
		var pv *Val
		for i := len(p.frames) - 1; i >= 0; i-- {
			if p.frames[i].recov != nil {
				pv = p.frames[i].recov
				p.frames[i].recov = nil
				break
			}
		}
		_ = fr
		if pv != nil && p.panicked {
			p.panicked = false
			v := *pv
			if v.K != KIface {
				v = c.makeIface(p, v, v.Typ, types.NewInterfaceType(nil, nil))
			}
			return one(v)
		}
		// standalone verification of a deferred closure: recover() may return anything
		if len(p.frames) == 1 && c.fn.Parent() != nil {
			v := c.symbolic(p, "recovered", types.NewInterfaceType(nil, nil))
			return one(v)
		}
		return one(Val{K: KIface, T: "0", IVal: "0", IStr: "\"\"", Typ: types.NewInterfaceType(nil, nil)})
	case "print", "println":
		return []outcome{{p: p}}
	case "min", "max":
		if len(args) == 2 && args[0].K == KInt {
			op := "<"
			if b.Name() == "max" {
				op = ">"
			}
			return one(Val{K: KInt, T: fmt.Sprintf("(ite (%s %s %s) %s %s)", op, args[0].T, args[1].T, args[0].T, args[1].T), Typ: args[0].Typ})
		}
	}
	c.note("builtin " + b.Name() + " abstracted in " + c.fn.Name())
	return c.defaultCall(p, call.Signature().Results(), "builtin:"+b.Name())
}

// ---------- hard-wired library semantics ----------

func (c *FnCtx) special(p *Path, fn *ssa.Function, name string, args []Val) ([]outcome, bool) {
	none := func() ([]outcome, bool) { return []outcome{{p: p}}, true }
	one := func(v Val) ([]outcome, bool) { return []outcome{{p: p, ret: []Val{v}}}, true }
	timeT := func() types.Type { return c.eng.timeType }
	if len(args) < len(fn.Params) || (len(args) == 0 && name != "time.Now") {
		return nil, false
	}
	switch name {
	case "(*sync.Mutex).Lock", "(*sync.RWMutex).Lock":
		c.lockOp(p, args[0], 2, true)
		return none()
	case "(*sync.RWMutex).RLock":
		c.lockOp(p, args[0], 1, true)
		return none()
	case "(*sync.Mutex).Unlock", "(*sync.RWMutex).Unlock":
		c.lockOp(p, args[0], 2, false)
		return none()
	case "(*sync.RWMutex).RUnlock":
		c.lockOp(p, args[0], 1, false)
		return none()
	case "time.Now":
		t := c.tick(p)
		return one(Val{K: KInt, T: t, Typ: timeT()})
	case "time.Since":
		t := c.tick(p)
		return one(Val{K: KInt, T: fmt.Sprintf("(- %s %s)", t, args[0].T), Typ: fn.Signature.Results().At(0).Type()})
	case "(time.Time).Add":
		return one(Val{K: KInt, T: fmt.Sprintf("(+ %s %s)", args[0].T, args[1].T), Typ: timeT()})
	case "(time.Time).Sub":
		return one(Val{K: KInt, T: fmt.Sprintf("(- %s %s)", args[0].T, args[1].T), Typ: fn.Signature.Results().At(0).Type()})
	case "(time.Time).Before":
		return one(Val{K: KBool, T: fmt.Sprintf("(< %s %s)", args[0].T, args[1].T), Typ: types.Typ[types.Bool]})
	case "(time.Time).After":
		return one(Val{K: KBool, T: fmt.Sprintf("(> %s %s)", args[0].T, args[1].T), Typ: types.Typ[types.Bool]})
	case "(time.Time).Equal":
		return one(Val{K: KBool, T: fmt.Sprintf("(= %s %s)", args[0].T, args[1].T), Typ: types.Typ[types.Bool]})
	case "(time.Time).IsZero":
		return one(Val{K: KBool, T: fmt.Sprintf("(= %s TZERO)", args[0].T), Typ: types.Typ[types.Bool]})
	case "(time.Time).UnixNano":
		return one(Val{K: KInt, T: args[0].T, Typ: types.Typ[types.Int64]})
	case "(time.Duration).Milliseconds":
		d := args[0].T
		q := fmt.Sprintf("(ite (>= %s 0) (div %s 1000000) (- (div (- %s) 1000000)))", d, d, d)
		return one(Val{K: KInt, T: q, Typ: types.Typ[types.Int64]})
	}
	if strings.HasPrefix(name, "sync/atomic.") {
		op := strings.TrimPrefix(name, "sync/atomic.")
		ptr := args[0]
		et := elemTypeOf(fn.Signature.Params().At(0).Type())
		if et == nil {
			return nil, false
		}
		c.checkNonNil(p, ptr.T, "atomic op")
		if b, isB := et.Underlying().(*types.Basic); isB && (b.Kind() == types.Int64 || b.Kind() == types.Uint64) {
			// sync/atomic: on 32-bit platforms a 64-bit operand must be 64-bit aligned, which Go guarantees only
			// for the first word of an allocated struct; a field at an offset that is not a multiple of 8 under
			// 4-byte words makes the operation panic ("unaligned 64-bit atomic operation")
			if off, ok := c.eng.fieldOffset32(c.addrKey(ptr)); ok {
				cond := fmt.Sprintf("(= (mod %d 8) 0)", off)
				c.oblige(p, "safe", "atomic64_alignment_"+shortKey(c.addrKey(ptr)), cond,
					fmt.Sprintf("64-bit atomic operation on %s, which sits at offset %d on 32-bit platforms (not 8-byte aligned: the operation panics there)", c.addrKey(ptr), off), nil)
			}
		}
		switch {
		case strings.HasPrefix(op, "Add"):
			old := c.load(p, &p.heap, ptr, et)
			c.loadFacts(p, old, et)
			nv := Val{K: KInt, T: wrapInt("(+ "+old.T+" "+args[1].T+")", et), Typ: et}
			c.store(p, &p.heap, ptr, nv, et)
			return one(nv)
		case strings.HasPrefix(op, "Load"):
			v := c.load(p, &p.heap, ptr, et)
			c.loadFacts(p, v, et)
			return one(v)
		case strings.HasPrefix(op, "Store"):
			c.store(p, &p.heap, ptr, args[1], et)
			return none()
		case strings.HasPrefix(op, "CompareAndSwap"):
			old := c.load(p, &p.heap, ptr, et)
			c.loadFacts(p, old, et)
			ok := "(= " + old.T + " " + args[1].T + ")"
			nv := Val{K: KInt, T: fmt.Sprintf("(ite %s %s %s)", ok, args[2].T, old.T), Typ: et}
			c.store(p, &p.heap, ptr, nv, et)
			return one(Val{K: KBool, T: ok, Typ: types.Typ[types.Bool]})
		}
	}
	return nil, false
}

// tick: a clock reading; monotone within the thread.
func (c *FnCtx) tick(p *Path) string {
	t := c.fresh("now", "Int")
	if p.now != "" {
		p.assume(fmt.Sprintf("(>= %s %s)", t, p.now))
	}
	p.assume(fmt.Sprintf("(and (>= %s 0) (<= %s 4611686018427387904))", t, t))
	p.now = t
	return t
}

// ---------- locks ----------

// mutex state: 0 = not held by this thread, 1 = read-held, 2 = write-held
func (c *FnCtx) lockOp(p *Path, m Val, mode int, acquire bool) {
	key := c.addrKey(m)
	arr := c.heapGet(&p.heap, key, "Int")
	cur := fmt.Sprintf("(select %s %s)", arr, m.T)
	if m.Idx != "" {
		c.note("mutex inside slice element: outside subset")
		return
	}
	c.checkNonNil(p, m.T, "mutex")
	if acquire {
		c.oblige(p, "no_self_lock", shortKey(key), fmt.Sprintf("(= %s 0)", cur), "acquiring "+key+" while this thread already holds it", nil)
		p.assume(fmt.Sprintf("(= %s 0)", cur))
		p.heap.m[key] = fmt.Sprintf("(store %s %s %d)", arr, m.T, mode)
		// declared lock order (deadlock freedom across objects): nothing that must come earlier may be taken now
		for _, h := range p.held {
			if c.eng.mustPrecede(key, h) {
				c.oblige(p, "lock", "order_"+shortKey(key)+"_while_holding_"+shortKey(h), "false",
					"acquiring "+key+" while holding "+h+": the declared lock order puts it first (two threads taking them in opposite orders deadlock)", nil)
			}
		}
		p.held = append(p.held, key)
		c.monitorAcquire(p, key, m)
		if mode == 2 && len(p.frames) == 1 {
			snap := p.heap.clone()
			p.lastAcq = &snap
		}
		return
	}
	c.oblige(p, "lock", "unlock_held_"+shortKey(key), fmt.Sprintf("(= %s %d)", cur, mode), "releasing "+key+" in the mode it is held", nil)
	p.assume(fmt.Sprintf("(= %s %d)", cur, mode))
	c.monitorRelease(p, key, m, mode)
	for i := len(p.held) - 1; i >= 0; i-- {
		if p.held[i] == key {
			p.held = append(p.held[:i:i], p.held[i+1:]...)
			break
		}
	}
	arr = c.heapGet(&p.heap, key, "Int")
	p.heap.m[key] = fmt.Sprintf("(store %s %s 0)", arr, m.T)
}

func shortKey(k string) string {
	return strings.NewReplacer("*", "", "[]", "", " ", "").Replace(k)
}

// ---------- permissions (C12) ----------

func (c *FnCtx) permCheck(p *Path, ptr Val, write bool, pos token.Pos) {
	key := c.addrKey(ptr)
	pol := c.eng.policyFor(key)
	if pol == nil || ptr.Idx != "" {
		return
	}
	for _, a := range p.allocs {
		if a == ptr.T {
			return // object allocated on this path: not yet published
		}
	}
	acc := "read"
	if write {
		acc = "write"
	}
	label := shortKey(pol.key) + "_" + acc
	switch pol.Policy {
	case "immutable":
		if write {
			c.oblige(p, "perm", label, "false", "store to immutable field "+pol.key+" of a published object", pol.Props)
		}
	case "atomic":
		c.oblige(p, "perm", label, "false", "plain (non-atomic) "+acc+" of atomic field "+pol.key, pol.Props)
	case "guarded_by":
		gk := pol.guardKey
		arr := c.heapGet(&p.heap, gk, "Int")
		if pol.sameObject {
			h := fmt.Sprintf("(select %s %s)", arr, ptr.T)
			g := "(>= " + h + " 1)"
			if write {
				g = "(= " + h + " 2)"
			}
			c.oblige(p, "perm", label, g, acc+" of "+pol.key+" requires "+gk, pol.Props)
		} else {
			// guard lives in another object: some lock of that kind must be held in a sufficient mode
			found := false
			for _, h := range p.held {
				if h == gk {
					found = true
				}
			}
			_ = found
			ow := c.eng.ownerTerm(c, p, pol, ptr)
			if ow == "" {
				c.oblige(p, "perm", label, boolT(found), acc+" of "+pol.key+" requires "+gk, pol.Props)
			} else {
				h := fmt.Sprintf("(select %s %s)", arr, ow)
				g := "(>= " + h + " 1)"
				if write {
					g = "(= " + h + " 2)"
				}
				c.oblige(p, "perm", label, g, acc+" of "+pol.key+" requires "+gk, pol.Props)
			}
		}
	}
}

// ---------- internally synchronised shared objects (sync.Map) under interference ----------

func (c *FnCtx) atomicFor(key string) *AtomicObj {
	for _, a := range c.eng.cs.Atomics {
		if c.eng.qualType(a.Pkg, a.Type)+"."+a.Field == key {
			return a
		}
	}
	return nil
}

func (c *FnCtx) atomicSelf(ao *AtomicObj, obj Val) (map[string]Val, *types.Package) {
	pkg := c.eng.pkgByDir(ao.Pkg)
	self := Val{K: KPtr, T: obj.T, Typ: types.NewPointer(c.eng.parseType(pkg, ao.Type))}
	return map[string]Val{ao.Self: self}, pkg
}

// atomicInterfere: other threads may have operated on the object since this thread last looked.
func (c *FnCtx) atomicInterfere(p *Path, ao *AtomicObj, obj Val) {
	for _, st := range ao.State {
		c.havoc(&p.heap, obj.Key+".$"+st, obj.T)
	}
	c.advanceAlloc(p) // other threads may have allocated in the meantime
	env, pkg := c.atomicSelf(ao, obj)
	ec := &EvalCtx{c: c, p: p, env: env, heap: &p.heap, pkg: pkg}
	for _, cl := range ao.Inv {
		if t, ok := c.evalClause(ec, cl, "atomic inv"); ok {
			p.assume(t)
		}
	}
}

func (c *FnCtx) atomicCheck(p *Path, ao *AtomicObj, obj Val, old *HeapView, op string) {
	env, pkg := c.atomicSelf(ao, obj)
	ec := &EvalCtx{c: c, p: p, env: env, heap: &p.heap, old: old, pkg: pkg}
	for i, cl := range ao.Inv {
		t, _ := c.evalClause(ec, cl, "atomic inv")
		c.oblige(p, "atomic_inv", ao.Field+"."+op+"."+clauseLabel(cl, i, "inv"), t, cl.Src, nil)
	}
	for i, cl := range ao.Guar {
		t, _ := c.evalClause(ec, cl, "atomic guarantee")
		c.oblige(p, "guarantee", ao.Field+"."+op+"."+clauseLabel(cl, i, "guar"), t, cl.Src, nil)
	}
}
