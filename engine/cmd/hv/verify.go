package main

import (
	"fmt"
	"go/types"
	"os"
	"sort"
	"strings"
	"sync"
	"time"

	"golang.org/x/tools/go/ssa"
)

type ObResult struct {
	Name     string  `json:"name"`
	Kind     string  `json:"kind"`
	Func     string  `json:"func"`
	Mode     string  `json:"mode"`
	Paths    int     `json:"paths"`
	Status   string  `json:"status"` // discharged | failed | undecided
	Solver   string  `json:"solver"`
	TimeS    float64 `json:"time_s"`
	MaxS     float64 `json:"max_query_s"`
	Src      string  `json:"clause,omitempty"`
	Model    string  `json:"-"`
	FailPath string  `json:"fail_path,omitempty"`
	Raw      string  `json:"-"`
	Query    string  `json:"-"`
	Ctx      *FnCtx  `json:"-"`
	anyOK    bool
	Props    []string `json:"props,omitempty"`
	SmtBytes int      `json:"smt_bytes"`
}

type FuncReport struct {
	Func        string
	Mode        string
	Paths       int
	Instrs      int
	Obs         []*Obligation
	Notes       []string
	Inlined     []string
	Trusted     []string
	Defaults    []string
	Aborted     string
	Unverified  []string // Helios callees used through a contract that no check verifies
	Vacuity     []*Obligation
	HasContract bool
}

func (e *Engine) newCtx(fn *ssa.Function, fc *FuncContract, mode string) *FnCtx {
	c := &FnCtx{eng: e, fn: fn, fc: fc, mode: mode, declared: map[string]bool{}, heapSort: map[string]string{},
		divw: map[string]string{}, usedContracts: map[string]bool{}, notes: map[string]bool{}, inlined: map[string]bool{}, trusted: map[string]bool{}, defaults: map[string]bool{}}
	c.label = pkgShort(fn.Pkg.Pkg) + "." + relName(fn)
	return c
}

func newPath() *Path {
	return &Path{heap: HeapView{m: map[string]string{}}, nonnil: map[string]bool{}, inb: map[string]bool{}, ghost: map[string]string{}}
}

// globalAxioms: axioms from contract files are assumed in every verification context.
func (c *FnCtx) globalAxioms(p *Path) {
	for i, ax := range c.eng.cs.Axioms {
		ec := &EvalCtx{c: c, p: p, env: map[string]Val{}, heap: &p.heap, pkg: c.eng.pkgByDir(c.eng.cs.AxiomPkg[i])}
		t, ok := c.evalClause(ec, ax, "axiom")
		if ok {
			p.assume(t)
		}
	}
}

// VerifyFunc generates the obligations of one function in one mode.
func (e *Engine) VerifyFunc(fn *ssa.Function, mode string) (rep *FuncReport) {
	fc := e.contractOf(fn)
	c := e.newCtx(fn, fc, mode)
	rep = &FuncReport{Func: c.label, Mode: mode, HasContract: fc != nil}
	defer func() {
		// a contract clause that cannot be evaluated against the current source (renamed variable, removed
		// field, ...) must surface as an undischarged obligation, never as a crash of the verifier
		if r := recover(); r != nil {
			ce, ok := r.(contractError)
			if !ok {
				panic(r)
			}
			e.contractErrors = append(e.contractErrors, c.label+": "+ce.msg)
			rep.Aborted = "contract no longer binds: " + ce.msg
			rep.Obs = c.obs
		}
	}()
	for _, b := range fn.Blocks {
		rep.Instrs += len(b.Instrs)
	}
	if len(fn.Blocks) == 0 {
		return rep
	}
	p := newPath()
	fr := &frame{fn: fn, regs: map[ssa.Value]Val{}, entered: map[*ssa.BasicBlock]*loopEntry{}, fc: fc}
	p.frames = []*frame{fr}
	env := map[string]Val{}
	for i, prm := range fn.Params {
		v := c.symbolic(p, prm.Name(), prm.Type())
		v.Origin = prm.Name()
		fr.regs[prm] = v
		env[prm.Name()] = v
		if c.paramVals == nil {
			c.paramVals = map[string]Val{}
		}
		c.paramVals[prm.Name()] = v
		c.assumeWorld(p, v, prm.Type())
		if i == 0 && fn.Signature.Recv() != nil && v.K == KPtr {
			p.assume(fmt.Sprintf("(not (= %s 0))", v.T))
			p.nonnil[v.T] = true
		}
	}
	c.eng.aliasEnv(fn, env)
	for _, fv := range fn.FreeVars {
		v := c.symbolic(p, fv.Name(), fv.Type())
		v.Origin = fv.Name()
		if v.K == KPtr {
			p.assume(fmt.Sprintf("(not (= %s 0))", v.T))
			p.nonnil[v.T] = true
			c.assumeWorld(p, v, fv.Type())
		}
		fr.regs[fv] = v
		env["&"+fv.Name()] = v
	}
	c.derefFreeVarsEntry(p, fn, env)
	c.globalAxioms(p)
	p.now = c.fresh("now_entry", "Int")
	p.assume("(and (>= " + p.now + " 0) (<= " + p.now + " 4611686018427387904))")
	entryNow := p.now
	c.entryNow = entryNow
	pkg := fn.Pkg.Pkg
	if fc != nil {
		ec := &EvalCtx{c: c, p: p, env: env, heap: &p.heap, pkg: pkg}
		for _, cl := range fc.Requires {
			if cl.Seq && mode != "seq" {
				continue
			}
			t, ok := c.evalClause(ec, cl, "requires of "+c.label)
			if ok {
				p.assume(t)
			}
		}
		for _, cl := range fc.Captured {
			if t, ok := c.evalClause(ec, cl, "captured of "+c.label); ok {
				p.assume(t)
			}
		}
		// vacuity: the precondition (with type facts and axioms) must be satisfiable
		rep.Vacuity = append(rep.Vacuity, &Obligation{Name: c.label + "/vacuity/requires", Kind: "vacuity", Func: c.label, Ctx: c,
			Assumes: append([]string(nil), p.assumes...), Goal: "false", WantSat: true, Props: fc.Props})
		c.runGhost(p, fc, "entry", env, nil)
	}
	entryHeap := p.heap.clone()
	ghostEntry := map[string]string{}
	for k, v := range p.ghost {
		ghostEntry[k] = v
	}
	outs := c.execFrom(p, fn.Blocks[0], 0)
	var props []string
	if fc != nil {
		props = fc.Props
	}
	// vacuity at the exits: the facts assumed along the way (callee postconditions, trusted specs, loop
	// invariants, monitor invariants) must leave at least one normal exit reachable, otherwise every
	// postcondition proved for this function is proved about nothing
	if fc != nil && !fc.NoReturn {
		n := 0
		for _, o := range outs {
			if o.panic || n >= 16 {
				continue
			}
			n++
			rep.Vacuity = append(rep.Vacuity, &Obligation{Name: c.label + "/vacuity/some_exit_reachable", Kind: "vacuity", Func: c.label, Ctx: c,
				NDecl: len(c.decls), Assumes: append([]string(nil), o.p.assumes...), Goal: "false", WantSat: true, Any: true, Props: fc.Props,
				Path: strings.Join(o.p.trace, ">"), Src: "the assumptions collected on a path to a normal exit are satisfiable"})
		}
	}
	for _, o := range outs {
		q := o.p
		if o.panic {
			if fc == nil || !fc.MayPanic {
				c.oblige(q, "safe", "no_escaping_panic", "false", "a panic escapes the function on this path", props)
			}
			if fc != nil {
				ec := &EvalCtx{c: c, p: q, env: env, heap: &q.heap, old: &entryHeap, oldNow: entryNow, pkg: pkg, ghostOld: ghostEntry}
				for i, cl := range fc.EnsuresP {
					if cl.Seq && mode != "seq" {
						continue
					}
					t, _ := c.evalClause(ec, cl, "ensures_panic of "+c.label)
					c.oblige(q, "post_panic", clauseLabel(cl, i, "ensures_panic"), t, cl.Src, props)
				}
			}
			c.exitChecks(q, fc, env, &entryHeap, props, true)
			continue
		}
		renv := map[string]Val{}
		for k, v := range env {
			renv[k] = v
		}
		res := fn.Signature.Results()
		for i := 0; i < res.Len() && i < len(o.ret); i++ {
			if n := res.At(i).Name(); n != "" && n != "_" {
				renv[n] = o.ret[i]
			}
			if fc != nil && i < len(fc.ResultName) {
				renv[fc.ResultName[i]] = o.ret[i]
			}
			renv[fmt.Sprintf("result%d", i)] = o.ret[i]
			if i == 0 {
				renv["result"] = o.ret[i]
			}
		}
		c.eng.aliasEnv(fn, renv)
		if fc != nil {
			c.runGhost(q, fc, "exit", renv, &entryHeap)
			ec := &EvalCtx{c: c, p: q, env: renv, heap: &q.heap, old: &entryHeap, oldNow: entryNow, pkg: pkg, ghostOld: ghostEntry}
			for i, cl := range fc.Ensures {
				if cl.Seq && mode != "seq" {
					continue
				}
				if cl.Mon && mode != "mon" {
					continue
				}
				if cl.Acq {
					if mode != "mon" || q.lastAcq == nil {
						continue
					}
					// relative to the state at the latest write-lock acquisition: what holds under every interleaving
					ac := *ec
					ac.old = q.lastAcq
					t, _ := c.evalClause(&ac, cl, "ensures of "+c.label)
					c.oblige(q, "post_acq", clauseLabel(cl, i, "ensures"), t, cl.Src, props)
					continue
				}
				t, _ := c.evalClause(ec, cl, "ensures of "+c.label)
				cp := props
				if len(cl.Props) > 0 {
					cp = cl.Props
				}
				c.oblige(q, "post", clauseLabel(cl, i, "ensures"), t, cl.Src, cp)
				c.obs[len(c.obs)-1].Only = len(cl.Props) > 0
			}
		}
		c.capturedAtExit(q, fc, fn, env, props)
		c.exitChecks(q, fc, env, &entryHeap, props, false)
	}
	rep.Paths = len(outs)
	rep.Obs = c.obs
	rep.Notes = sortedNotes(c.notes)
	rep.Inlined = sortedNotes(c.inlined)
	rep.Trusted = sortedNotes(c.trusted)
	rep.Defaults = sortedNotes(c.defaults)
	rep.Aborted = c.aborted
	for k, verified := range c.usedContracts {
		if !verified {
			rep.Unverified = append(rep.Unverified, k)
		}
	}
	sort.Strings(rep.Unverified)
	return rep
}

func (c *FnCtx) derefFreeVarsEntry(p *Path, fn *ssa.Function, env map[string]Val) {
	for _, fv := range fn.FreeVars {
		ptr := env["&"+fv.Name()]
		pt, ok := fv.Type().Underlying().(*types.Pointer)
		if !ok {
			continue
		}
		v := c.load(p, &p.heap, ptr, pt.Elem())
		c.loadFacts(p, v, pt.Elem())
		v.Origin = fv.Name()
		env[fv.Name()] = v
	}
}

// assumeWorld: pointers received from the caller denote objects allocated before the call.
func (c *FnCtx) assumeWorld(p *Path, v Val, t types.Type) {
	switch v.K {
	case KPtr, KMap:
		c.assumeAllocated(p, v.T)
	case KSlice:
		c.assumeAllocated(p, v.T)
	case KIface:
		// payload may be a pointer
		c.assumeAllocated(p, v.IVal)
	case KStruct:
		st := structOf(t)
		if st == nil || isOpaqueExternal(t) {
			return
		}
		for i := 0; i < st.NumFields(); i++ {
			c.assumeWorld(p, v.Fs[i], st.Field(i).Type())
		}
	}
}

// runGhost executes ghost assignments attached to the contract.
func (c *FnCtx) runGhost(p *Path, fc *FuncContract, at string, env map[string]Val, old *HeapView) {
	for _, g := range fc.Ghost {
		if g.At != at {
			continue
		}
		ec := &EvalCtx{c: c, p: p, env: env, heap: &p.heap, old: old, pkg: c.fn.Pkg.Pkg}
		func() {
			defer func() {
				if r := recover(); r != nil {
					if ce, ok := r.(contractError); ok {
						c.eng.contractErrors = append(c.eng.contractErrors, "ghost "+g.Src+": "+ce.msg)
						return
					}
					panic(r)
				}
			}()
			rhs := ec.eval(g.RHS)
			cond := "true"
			if g.Cnd != nil {
				cond = ec.asBool(ec.eval(g.Cnd))
			}
			c.ghostAssign(p, ec, g.LHS, rhs, cond)
		}()
	}
}

// runGhostAt: ghost statements attached to a program point of the function under verification
// ("after:<callee>" or "release:<mutex field>"). Names are the source variables visible on the path.
func (c *FnCtx) runGhostAt(p *Path, at string) {
	fr := p.frames[0]
	if fr.fc == nil || len(p.frames) != 1 {
		return
	}
	has := false
	for _, g := range fr.fc.Ghost {
		if g.At == at {
			has = true
		}
	}
	if !has {
		return
	}
	env := c.frameEnv(p, fr, nil)
	if c.ghostRet != nil {
		env["ret"] = *c.ghostRet
	}
	c.runGhost(p, fr.fc, at, env, nil)
}

func (c *FnCtx) ghostAssign(p *Path, ec *EvalCtx, lhs Expr, rhs Val, cond string) {
	switch l := lhs.(type) {
	case EIdent:
		for _, g := range c.eng.cs.GVars {
			if g.Name == l.Name {
				key := "$g:" + l.Name
				arr := c.heapGet(&p.heap, key, g.Sort)
				nv := rhs.T
				if rhs.K == KIface {
					nv = rhs.IVal
				}
				if cond != "true" {
					nv = fmt.Sprintf("(ite %s %s (select %s 0))", cond, rhs.T, arr)
				}
				p.heap.m[key] = fmt.Sprintf("(store %s 0 %s)", arr, nv)
				return
			}
		}
	case EField:
		x := ec.eval(l.X)
		var key, ref string
		var srt string
		switch x.K {
		case KPtr:
			et := derefType(x.Typ)
			if g := ec.ghostField(typeKey(et), l.F); g != nil {
				key, ref, srt = c.addrKey(x)+".$"+l.F, x.T, g.Sort
			}
		case KMap:
			if g := ec.ghostField(typeKey(x.Typ), l.F); g != nil {
				key, ref, srt = typeKey(x.Typ)+".$"+l.F, x.T, g.Sort
			}
		case KIface:
			if g := ec.ghostField(typeKey(x.Typ), l.F); g != nil {
				key, ref, srt = typeKey(x.Typ)+".$"+l.F, x.IVal, g.Sort
			}
		}
		if key != "" {
			arr := c.heapGet(&p.heap, key, srt)
			nv := rhs.T
			if rhs.K == KIface {
				nv = rhs.IVal
			}
			if cond != "true" {
				nv = fmt.Sprintf("(ite %s %s (select %s %s))", cond, rhs.T, arr, ref)
			}
			p.heap.m[key] = fmt.Sprintf("(store %s %s %s)", arr, ref, nv)
			return
		}
	}
	panic(contractError{"ghost assignment target must be a ghost variable or ghost field: " + lhs.String()})
}

// exitChecks: frame condition and lock balance.
func (c *FnCtx) exitChecks(p *Path, fc *FuncContract, env map[string]Val, entry *HeapView, props []string, panicking bool) {
	if fc == nil {
		// no contract: only the lock balance (a function must release what it acquired) for mutex keys
	}
	// what may change
	var allowed []locTarget
	all := false
	if fc != nil {
		ec := &EvalCtx{c: c, p: p, env: env, heap: entry, pkg: c.fn.Pkg.Pkg}
		for _, m := range fc.Modifies {
			if strings.TrimSpace(m) == "*" {
				all = true
				continue
			}
			allowed = append(allowed, c.resolveLocNoHavoc(p, ec, m)...)
		}
	}
	if os.Getenv("HV_DEBUG") != "" {
		fmt.Fprintf(os.Stderr, "exitChecks %s allowed=%v all=%v\n", c.label, allowed, all)
	}
	for _, k := range sortedKeys(p.heap.m) {
		if strings.HasPrefix(k, "$alloc") || strings.HasPrefix(k, "$bytes") || strings.HasPrefix(k, "cell:") {
			continue
		}
		srt, ok := c.heapSort[k]
		if !ok {
			continue
		}
		e0 := sym("H0 " + k)
		cur := p.heap.m[k]
		if cur == e0 {
			continue
		}
		isMutex := c.eng.isMutexKey(k)
		if fc == nil && !isMutex {
			continue
		}
		if c.mode == "mon" && !isMutex {
			continue // under interference guarded fields change anyway; frames are a seq-mode notion
		}
		if all && !isMutex {
			continue
		}
		var refs []string
		whole := false
		for _, a := range allowed {
			if keyMatches(k, a.prefix) {
				if a.ref == "" {
					whole = true
				} else {
					refs = append(refs, a.ref)
				}
			}
		}
		if whole {
			continue
		}
		// a witness object allocated before the call whose content differs
		w := c.fresh("frame_w", "Int")
		conj := []string{inAl(c.allocT0(), w)}
		for _, r := range refs {
			conj = append(conj, fmt.Sprintf("(not (= %s %s))", w, r))
		}
		_ = srt
		conj = append(conj, fmt.Sprintf("(not (= (select %s %s) (select %s %s)))", cur, w, e0, w))
		kind, label := "frame", shortKey(k)
		if isMutex {
			kind, label = "lock", "balanced_"+shortKey(k)
		}
		if panicking {
			label += "_on_panic"
		}
		c.oblige(p, kind, label, "(not (and "+strings.Join(conj, " ")+"))", "only locations in the modifies clause may change: "+k, props)
	}
}

func (c *FnCtx) resolveLocNoHavoc(p *Path, ec *EvalCtx, loc string) []locTarget {
	if strings.TrimSpace(loc) == "*" {
		return []locTarget{{"*", ""}}
	}
	return c.resolveLoc(p, ec, loc)
}

func (e *Engine) isMutexKey(k string) bool {
	return e.mutexKeys[k]
}

// ---------- discharging ----------

type runOpts struct {
	timeoutS int
	noRetry  bool
	all      bool // thorough: all three solvers must agree
	workers  int
	keepSMT  string
}

func buildQuery(ob *Obligation) string {
	var b strings.Builder
	c := ob.Ctx
	decls := c.decls
	if ob.NDecl > 0 && ob.NDecl <= len(decls) {
		decls = decls[:ob.NDecl] // only what existed when the obligation was emitted (everything it mentions)
	}
	for _, d := range decls {
		b.WriteString(d)
		b.WriteByte('\n')
	}
	for _, a := range ob.Assumes {
		b.WriteString("(assert ")
		b.WriteString(a)
		b.WriteString(")\n")
	}
	if !ob.WantSat {
		b.WriteString("(assert (not ")
		b.WriteString(ob.Goal)
		b.WriteString("))\n")
	}
	return b.String()
}

// Discharge runs all obligations; obligations with the same name are aggregated.
func Discharge(obs []*Obligation, opt runOpts) []*ObResult {
	type job struct {
		ob   *Obligation
		res  SolveResult
		all  []SolveResult
		q    string
		qlen int
	}
	jobs := make([]*job, len(obs))
	for i, ob := range obs {
		jobs[i] = &job{ob: ob}
	}
	var wg sync.WaitGroup
	sem := make(chan struct{}, opt.workers)
	// an obligation is the conjunction of its path queries: once one path has a countermodel (or two paths are
	// undecided) the obligation is not discharged whatever the other paths say, so they are not run (a broken
	// function would otherwise cost paths x 20 s x 3 solvers)
	var stMu sync.Mutex
	nFailed := map[string]int{}
	nUndec := map[string]int{}
	for _, j := range jobs {
		wg.Add(1)
		sem <- struct{}{}
		go func(j *job) {
			defer wg.Done()
			defer func() { <-sem }()
			stMu.Lock()
			skip := !j.ob.WantSat && (nFailed[j.ob.Name] > 0 || nUndec[j.ob.Name] >= 2)
			stMu.Unlock()
			if skip {
				j.res = SolveResult{Status: "skipped", Solver: "", Raw: "not run: another path of this obligation already failed"}
				return
			}
			defer func() {
				if j.ob.WantSat {
					return
				}
				stMu.Lock()
				switch j.res.Status {
				case "unsat":
				case "sat":
					nFailed[j.ob.Name]++
				default:
					nUndec[j.ob.Name]++
				}
				stMu.Unlock()
			}()
			j.q = buildQuery(j.ob)
			if len(j.q) > 2_000_000 {
				j.res = SolveResult{Status: "error", Raw: "query exceeds size cap"}
				return
			}
			if j.ob.WantSat {
				// vacuity: only a proof of unsatisfiability counts against the precondition; a quantified
				// precondition on which the solvers answer unknown is reported as "not refuted"
				j.res = runOne(solvers[0], j.q, 3, false)
				if j.res.Status != "sat" && j.res.Status != "unsat" {
					r2 := runOne(solvers[2], j.q, 3, false)
					if r2.Status == "sat" || r2.Status == "unsat" {
						j.res = r2
					}
				}
				return
			}
			j.res, j.all = solve(j.q, opt.timeoutS, opt.all)
			want := "unsat"
			if j.res.Status == want {
				j.qlen = len(j.q)
				j.q = "" // keep the text only for obligations that did not discharge
			}
		}(j)
	}
	wg.Wait()
	// second chance: a query that no solver decided within the limit may just have been starved (checks are
	// often run side by side with other work). Undecided queries, and the paths skipped because of them, are run
	// once more with three times the limit and at most four at a time; only what is still undecided then counts.
	if !opt.noRetry {
		var again []*job
		undecidedName := map[string]bool{}
		for _, j := range jobs {
			if !j.ob.WantSat && j.res.Status != "unsat" && j.res.Status != "sat" && j.res.Status != "skipped" {
				undecidedName[j.ob.Name] = true
			}
		}
		for _, j := range jobs {
			if j.ob.WantSat || nFailed[j.ob.Name] > 0 || !undecidedName[j.ob.Name] {
				continue
			}
			if j.res.Status != "unsat" {
				again = append(again, j)
			}
		}
		sem2 := make(chan struct{}, 4)
		var wg2 sync.WaitGroup
		stillBad := map[string]bool{}
		for _, j := range again {
			wg2.Add(1)
			sem2 <- struct{}{}
			go func(j *job) {
				defer wg2.Done()
				defer func() { <-sem2 }()
				stMu.Lock()
				skip := stillBad[j.ob.Name]
				stMu.Unlock()
				if skip {
					return // the obligation is already lost on another path
				}
				if j.q == "" {
					j.q = buildQuery(j.ob)
				}
				first := j.res
				j.res, j.all = solve(j.q, opt.timeoutS*3, false)
				j.res.Time += first.Time
				if j.res.Status == "unsat" {
					j.res.Solver += " (on retry)"
					j.qlen = len(j.q)
					j.q = ""
				} else {
					stMu.Lock()
					stillBad[j.ob.Name] = true
					stMu.Unlock()
				}
			}(j)
		}
		wg2.Wait()
	}
	byName := map[string]*ObResult{}
	var order []string
	for _, j := range jobs {
		r := byName[j.ob.Name]
		if r == nil {
			r = &ObResult{Name: j.ob.Name, Kind: j.ob.Kind, Func: j.ob.Func, Status: "discharged", Src: j.ob.Src, Props: j.ob.Props, Mode: j.ob.Ctx.mode}
			byName[j.ob.Name] = r
			order = append(order, j.ob.Name)
		}
		r.Paths++
		if j.res.Status == "skipped" {
			continue
		}
		r.TimeS += j.res.Time
		if j.res.Time > r.MaxS {
			r.MaxS = j.res.Time
		}
		if len(j.q) > r.SmtBytes {
			r.SmtBytes = len(j.q)
		}
		if j.qlen > r.SmtBytes {
			r.SmtBytes = j.qlen
		}
		want := "unsat"
		if j.ob.WantSat && j.ob.Any {
			// reachable if any path is not refuted; failed only if every path is unsatisfiable
			if j.res.Status != "unsat" {
				r.anyOK = true
				r.Status = "discharged"
				r.Solver = j.res.Solver
				if j.res.Status != "sat" {
					r.Solver += " (unknown: not refuted)"
				}
			} else if !r.anyOK {
				r.Status = "failed"
				r.Solver = j.res.Solver
				r.FailPath = j.ob.Path
				r.Raw = j.res.Raw
			}
			continue
		}
		if j.ob.WantSat {
			want = "sat"
			if j.res.Status != "unsat" && j.res.Status != "sat" {
				r.Solver = j.res.Solver + " (unknown: not refuted)"
				continue
			}
		}
		if j.res.Status == want {
			if r.Solver == "" || r.Status == "discharged" {
				r.Solver = j.res.Solver
			}
			continue
		}
		// not discharged
		st := "undecided"
		if j.res.Status == "sat" || (j.ob.WantSat && j.res.Status == "unsat") {
			st = "failed"
		}
		if r.Status == "discharged" || (r.Status == "undecided" && st == "failed") {
			r.Status = st
			r.Solver = j.res.Solver
			r.Model = j.res.Model
			r.FailPath = j.ob.Path
			r.Raw = j.res.Raw
			r.Query = j.q
			r.Ctx = j.ob.Ctx
			if j.ob.Src != "" {
				r.Src = j.ob.Src
			}
		}
	}
	var out []*ObResult
	sort.Strings(order)
	for _, n := range order {
		out = append(out, byName[n])
	}
	return out
}

var _ = time.Now

// capturedAtExit: the `captured` invariants of this closure (over its own captured variables) and of every closure
// it created on this path (over the variables those captured) hold when the function returns.
func (c *FnCtx) capturedAtExit(q *Path, fc *FuncContract, fn *ssa.Function, env map[string]Val, props []string) {
	if fc != nil && len(fc.Captured) > 0 {
		cenv := map[string]Val{}
		for k, v := range env {
			cenv[k] = v
		}
		c.derefFreeVars(q, &q.heap, fn, cenv)
		ec := &EvalCtx{c: c, p: q, env: cenv, heap: &q.heap, pkg: fn.Pkg.Pkg}
		for i, cl := range fc.Captured {
			t, _ := c.evalClause(ec, cl, "captured of "+c.label)
			c.oblige(q, "post", "captured_"+clauseLabel(cl, i, "captured"), t, cl.Src, props)
		}
	}
	for _, mc := range q.created {
		c.capturedOf(q, mc.fn, mc.binds, "post", "_at_exit", props)
	}
}

// capturedOf emits the `captured` invariants of closure fn for the given bindings, on the current heap.
func (c *FnCtx) capturedOf(p *Path, fn *ssa.Function, binds []Val, kind, suffix string, props []string) {
	fcc := c.eng.contractOf(fn)
	if fcc == nil || len(fcc.Captured) == 0 {
		return
	}
	env := map[string]Val{}
	for i, fv := range fn.FreeVars {
		if i < len(binds) {
			env["&"+fv.Name()] = binds[i]
		}
	}
	c.derefFreeVars(p, &p.heap, fn, env)
	ec := &EvalCtx{c: c, p: p, env: env, heap: &p.heap, pkg: fn.Pkg.Pkg}
	for i, cl := range fcc.Captured {
		t, _ := c.evalClause(ec, cl, "captured of "+fullName(fn))
		c.oblige(p, kind, "closure_"+shortName(fullName(fn))+"."+clauseLabel(cl, i, "captured")+suffix, t, cl.Src, props)
	}
}
