package main

import (
	"fmt"
	"go/types"
	"sort"
	"strings"

	"golang.org/x/tools/go/ssa"
)

type Kind int

const (
	KInt Kind = iota
	KBool
	KStr
	KPtr
	KSlice
	KIface
	KStruct
	KTuple
	KFunc
	KMap
	KArr    // spec-only: an SMT array (ghost maps); Len = index sort, Cap = element sort
	KOpaque // value we do not model (float, chan, array, complex): an Int-sorted fresh symbol
)

// Val is a symbolic Go value.
type Val struct {
	K   Kind
	T   string     // scalar term; ptr: ref; slice: base ref; iface: type tag; map/func/opaque: Int term
	Typ types.Type // static Go type (may be nil for spec-only values)
	// pointer: the address it denotes
	Key string // heap key prefix of the pointee ("" = unknown provenance: derive from Typ)
	Idx string // non-empty: element address inside backing store T at index Idx
	// slice
	Len, Cap string
	// interface payloads
	IVal, IStr string
	Dyn        types.Type // statically known dynamic type on this path
	DynV       *Val       // statically known payload
	// struct / tuple
	Fs []Val
	// func
	Fn   *ssa.Function
	Bind []Val
	// provenance for ghost call counters
	Origin string
}

func (v Val) String() string {
	switch v.K {
	case KSlice:
		return fmt.Sprintf("slice(%s,%s,%s)", v.T, v.Len, v.Cap)
	case KIface:
		return fmt.Sprintf("iface(%s,%s,%s)", v.T, v.IVal, v.IStr)
	case KStruct, KTuple:
		s := []string{}
		for _, f := range v.Fs {
			s = append(s, f.String())
		}
		return "{" + strings.Join(s, ",") + "}"
	case KPtr:
		if v.Idx != "" {
			return fmt.Sprintf("&%s[%s]@%s", v.T, v.Idx, v.Key)
		}
		return fmt.Sprintf("ptr(%s)@%s", v.T, v.Key)
	}
	return v.T
}

// ---------- type classification ----------

func pkgShort(p *types.Package) string {
	if p == nil {
		return ""
	}
	return p.Name()
}

func isNamed(t types.Type, pkgPath, name string) bool {
	n, ok := t.(*types.Named)
	if !ok {
		return false
	}
	o := n.Obj()
	return o.Name() == name && o.Pkg() != nil && o.Pkg().Path() == pkgPath
}

func isTime(t types.Type) bool { return isNamed(t, "time", "Time") }
func isMutex(t types.Type) bool {
	return isNamed(t, "sync", "Mutex") || isNamed(t, "sync", "RWMutex")
}

const heliosPrefix = "github.com/0xReLogic/Helios"

func isHeliosPkg(p *types.Package) bool {
	return p != nil && strings.HasPrefix(p.Path(), heliosPrefix)
}

// isOpaqueStruct: struct types from dependencies that we model only through ghost fields
// (sync.Map, sync.WaitGroup, bytes.Buffer, http.Request is NOT opaque: we read its fields).
func isExternalStruct(t types.Type) bool {
	n, ok := t.(*types.Named)
	if !ok {
		return false
	}
	if _, ok := n.Underlying().(*types.Struct); !ok {
		return false
	}
	return !isHeliosPkg(n.Obj().Pkg())
}

// externals whose exported fields we do model as ordinary fields
var transparentExternal = map[string]bool{
	"net/http.Request": true, "net/http.Response": true, "net/http.Server": true, "net/http.Transport": true,
	"net/http.Client": true, "net.Dialer": true, "net/url.URL": true, "net/http/httputil.ReverseProxy": true,
	"crypto/tls.Config": true, "net.IPNet": true,
}

func namedKey(n *types.Named) string {
	o := n.Obj()
	if o.Pkg() == nil {
		return o.Name()
	}
	if isHeliosPkg(o.Pkg()) {
		return o.Pkg().Name() + "." + o.Name()
	}
	return o.Pkg().Path() + "." + o.Name()
}

func typeKey(t types.Type) string {
	switch x := t.(type) {
	case *types.Named:
		return namedKey(x)
	case *types.Pointer:
		return "*" + typeKey(x.Elem())
	case *types.Slice:
		return "[]" + typeKey(x.Elem())
	case *types.Basic:
		return x.Name()
	case *types.Interface:
		if x.Empty() {
			return "any"
		}
		return "iface"
	case *types.Map:
		return "map[" + typeKey(x.Key()) + "]" + typeKey(x.Elem())
	case *types.Signature:
		return "func"
	case *types.Struct:
		return "struct" + fmt.Sprint(x.NumFields())
	case *types.Alias:
		return typeKey(types.Unalias(x))
	}
	return strings.ReplaceAll(t.String(), " ", "")
}

func kindOf(t types.Type) Kind {
	if t == nil {
		return KInt
	}
	if isTime(t) || isMutex(t) {
		return KInt
	}
	switch u := t.Underlying().(type) {
	case *types.Basic:
		switch {
		case u.Info()&types.IsBoolean != 0:
			return KBool
		case u.Info()&types.IsString != 0:
			return KStr
		case u.Info()&types.IsInteger != 0:
			return KInt
		case u.Kind() == types.UnsafePointer:
			return KInt
		case u.Kind() == types.UntypedNil:
			return KPtr
		}
		return KOpaque
	case *types.Pointer:
		return KPtr
	case *types.Slice:
		return KSlice
	case *types.Interface:
		return KIface
	case *types.Struct:
		return KStruct
	case *types.Tuple:
		return KTuple
	case *types.Signature:
		return KFunc
	case *types.Map:
		return KMap
	}
	return KOpaque
}

// intRange: (bits, signed) for integer types; bits 0 for unbounded/special (time)
func intRange(t types.Type) (int, bool) {
	if t == nil || isTime(t) || isMutex(t) {
		return 0, true
	}
	b, ok := t.Underlying().(*types.Basic)
	if !ok {
		return 0, true
	}
	switch b.Kind() {
	case types.Int8:
		return 8, true
	case types.Int16:
		return 16, true
	case types.Int32:
		return 32, true
	case types.Int, types.Int64, types.UntypedInt, types.UntypedRune:
		return 64, true
	case types.Uint8:
		return 8, false
	case types.Uint16:
		return 16, false
	case types.Uint32:
		return 32, false
	case types.Uint, types.Uint64, types.Uintptr:
		return 64, false
	}
	return 0, true
}

func pow2(n int) string {
	// decimal string of 2^n
	d := []int{1}
	for i := 0; i < n; i++ {
		c := 0
		for j := range d {
			v := d[j]*2 + c
			d[j] = v % 10
			c = v / 10
		}
		if c > 0 {
			d = append(d, c)
		}
	}
	s := make([]byte, len(d))
	for i := range d {
		s[len(d)-1-i] = byte('0' + d[i])
	}
	return string(s)
}

// rangeFact returns the SMT constraint "term is a valid value of integer type t"
func rangeFact(term string, t types.Type) string {
	bits, signed := intRange(t)
	if bits == 0 {
		return ""
	}
	if signed {
		return fmt.Sprintf("(and (<= (- %s) %s) (< %s %s))", pow2(bits-1), term, term, pow2(bits-1))
	}
	return fmt.Sprintf("(and (<= 0 %s) (< %s %s))", term, term, pow2(bits))
}

// wrap applies Go's modular arithmetic for type t to an unbounded Int term.
func wrapInt(term string, t types.Type) string {
	bits, signed := intRange(t)
	if bits == 0 {
		return term
	}
	if _, ok := constIntBig(term); ok {
		// constants are folded by the solver; keep exact form
	}
	m := pow2(bits)
	if !signed {
		return fmt.Sprintf("(wrapU %s %s)", term, m)
	}
	h := pow2(bits - 1)
	return fmt.Sprintf("(wrapS %s %s %s)", term, h, m)
}

func constIntBig(t string) (string, bool) {
	for _, ch := range t {
		if ch < '0' || ch > '9' {
			return "", false
		}
	}
	return t, t != ""
}

// fitsIn: every value of integer type a is a value of integer type b
func fitsIn(a, b types.Type) bool {
	ab, as := intRange(a)
	bb, bs := intRange(b)
	if ab == 0 || bb == 0 {
		return bb == 0
	}
	if as == bs {
		return ab <= bb
	}
	if !as && bs {
		return ab < bb
	}
	return false
}

// ---------- leaves: how a Go type is flattened into SMT-sorted components ----------

type leaf struct {
	Path string // suffix appended to a heap key, e.g. ".Server.Port" or ".backends#len"
	Sort string // Int | Bool | String
	Typ  types.Type
}

func structOf(t types.Type) *types.Struct {
	s, _ := t.Underlying().(*types.Struct)
	return s
}

// leavesOf enumerates scalar components of type t in a canonical order.
func leavesOf(t types.Type) []leaf {
	switch kindOf(t) {
	case KInt, KPtr, KFunc, KMap, KOpaque:
		return []leaf{{"", "Int", t}}
	case KBool:
		return []leaf{{"", "Bool", t}}
	case KStr:
		return []leaf{{"", "String", t}}
	case KSlice:
		return []leaf{{"#base", "Int", t}, {"#len", "Int", t}, {"#cap", "Int", t}}
	case KIface:
		return []leaf{{"#tag", "Int", t}, {"#ival", "Int", t}, {"#sval", "String", t}}
	case KStruct:
		var out []leaf
		if isExternalStruct(t) && !transparentExternal[typeKey(t)] {
			return []leaf{{"", "Int", t}} // opaque: modelled through ghost fields only
		}
		s := structOf(t)
		for i := 0; i < s.NumFields(); i++ {
			f := s.Field(i)
			for _, l := range leavesOf(f.Type()) {
				out = append(out, leaf{"." + f.Name() + l.Path, l.Sort, l.Typ})
			}
		}
		return out
	}
	return []leaf{{"", "Int", t}}
}

func isOpaqueExternal(t types.Type) bool {
	return kindOf(t) == KStruct && isExternalStruct(t) && !transparentExternal[typeKey(t)]
}

// ---------- building / decomposing values from leaf terms ----------

// valFromLeaves builds a Val of type t from a function giving the term for each leaf path.
func valFromLeaves(t types.Type, get func(path, sort string) string) Val {
	switch kindOf(t) {
	case KInt, KFunc, KMap, KOpaque:
		return Val{K: kindOf(t), T: get("", "Int"), Typ: t}
	case KPtr:
		return Val{K: KPtr, T: get("", "Int"), Typ: t}
	case KBool:
		return Val{K: KBool, T: get("", "Bool"), Typ: t}
	case KStr:
		return Val{K: KStr, T: get("", "String"), Typ: t}
	case KSlice:
		return Val{K: KSlice, T: get("#base", "Int"), Len: get("#len", "Int"), Cap: get("#cap", "Int"), Typ: t}
	case KIface:
		return Val{K: KIface, T: get("#tag", "Int"), IVal: get("#ival", "Int"), IStr: get("#sval", "String"), Typ: t}
	case KStruct:
		if isOpaqueExternal(t) {
			return Val{K: KOpaque, T: get("", "Int"), Typ: t}
		}
		s := structOf(t)
		v := Val{K: KStruct, Typ: t}
		for i := 0; i < s.NumFields(); i++ {
			f := s.Field(i)
			name := f.Name()
			v.Fs = append(v.Fs, valFromLeaves(f.Type(), func(p, srt string) string { return get("."+name+p, srt) }))
		}
		return v
	case KTuple:
		tp := t.(*types.Tuple)
		v := Val{K: KTuple, Typ: t}
		for i := 0; i < tp.Len(); i++ {
			idx := i
			v.Fs = append(v.Fs, valFromLeaves(tp.At(i).Type(), func(p, srt string) string { return get(fmt.Sprintf(".%d%s", idx, p), srt) }))
		}
		return v
	}
	return Val{K: KOpaque, T: get("", "Int"), Typ: t}
}

// leafTerms decomposes v (of type t) into (path, term) pairs matching leavesOf(t).
func leafTerms(v Val, t types.Type, prefix string, out *[][2]string) {
	switch kindOf(t) {
	case KSlice:
		*out = append(*out, [2]string{prefix + "#base", v.T}, [2]string{prefix + "#len", v.Len}, [2]string{prefix + "#cap", v.Cap})
	case KIface:
		*out = append(*out, [2]string{prefix + "#tag", v.T}, [2]string{prefix + "#ival", v.IVal}, [2]string{prefix + "#sval", v.IStr})
	case KStruct:
		if isOpaqueExternal(t) {
			*out = append(*out, [2]string{prefix, v.T})
			return
		}
		s := structOf(t)
		for i := 0; i < s.NumFields(); i++ {
			leafTerms(v.Fs[i], s.Field(i).Type(), prefix+"."+s.Field(i).Name(), out)
		}
	default:
		*out = append(*out, [2]string{prefix, v.T})
	}
}

// zeroVal gives the zero value of type t.
func zeroVal(t types.Type) Val {
	return valFromLeaves(t, func(p, srt string) string {
		switch srt {
		case "Bool":
			return "false"
		case "String":
			return "\"\""
		}
		return "0"
	}).fixZero()
}

func (v Val) fixZero() Val {
	if v.Typ != nil && isTime(v.Typ) {
		v.T = "TZERO"
	}
	for i := range v.Fs {
		v.Fs[i] = v.Fs[i].fixZero()
	}
	return v
}

// ---------- heap keys ----------

// pointeeKey: heap key prefix for what a pointer of static type *T points to when provenance is unknown.
func pointeeKey(elem types.Type) string {
	if kindOf(elem) == KStruct {
		if n, ok := types.Unalias(elem).(*types.Named); ok {
			return namedKey(n)
		}
		return typeKey(elem)
	}
	return "cell:" + typeKey(elem)
}

func elemKey(elem types.Type) string { return "[]" + typeKey(elem) }

func sortedKeys(m map[string]string) []string {
	ks := make([]string, 0, len(m))
	for k := range m {
		ks = append(ks, k)
	}
	sort.Strings(ks)
	return ks
}

func arraySort(key, leafSort string) string {
	if strings.HasPrefix(key, "[]") {
		return "(Array Int (Array Int " + leafSort + "))"
	}
	if strings.HasPrefix(key, "map[") && !strings.HasSuffix(key, "#len") {
		ks := "Int"
		if strings.HasPrefix(key, "map[string]") {
			ks = "String"
		}
		return "(Array Int (Array " + ks + " " + leafSort + "))"
	}
	return "(Array Int " + leafSort + ")"
}
