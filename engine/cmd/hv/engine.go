package main

import (
	"encoding/json"
	"fmt"
	"go/ast"
	"go/token"
	"go/types"
	"os"
	"path/filepath"
	"sort"
	"strings"

	"golang.org/x/tools/go/packages"
	"golang.org/x/tools/go/ssa"
	"golang.org/x/tools/go/ssa/ssautil"
)

type ufunDecl struct {
	name string
	args []string
	ret  string
}

type policyInfo struct {
	FieldPolicy
	key        string
	guardKey   string
	sameObject bool
}

type Engine struct {
	repo           string
	prog           *ssa.Program
	pkgs           []*packages.Package
	spkgs          []*ssa.Package
	fns            map[string]*ssa.Function // dir|RelString
	fnList         []*ssa.Function
	cs             *Contracts
	timeType       types.Type
	tags           map[string]int
	tagTypes       []types.Type
	fnids          map[*ssa.Function]int
	loops          map[*ssa.Function]map[*ssa.BasicBlock]*loopInfoT
	ufuns          map[string]*ufunDecl
	policies       map[string]*policyInfo
	contractErrors []string
	typesByDir     map[string]*types.Package
	allPkgs        map[string]*types.Package // by name and by path
	loadS          float64
	mutexKeys      map[string]bool
	lockedLocals   map[string][]string // locals.lock.json: function key -> local variable names in declaration order
	aliasCache     map[*ssa.Function]map[string]string
}

func LoadEngine(repo, trustedDir string) (*Engine, error) {
	cfg := &packages.Config{Mode: packages.LoadAllSyntax, Dir: repo, BuildFlags: []string{"-tags=verif"}}
	pkgs, err := packages.Load(cfg, "./internal/...", "./cmd/helios")
	if err != nil {
		return nil, err
	}
	for _, p := range pkgs {
		for _, e := range p.Errors {
			return nil, fmt.Errorf("package %s: %v", p.PkgPath, e)
		}
	}
	prog, spkgs := ssautil.AllPackages(pkgs, ssa.GlobalDebug)
	prog.Build()
	e := &Engine{repo: repo, prog: prog, pkgs: pkgs, spkgs: spkgs, fns: map[string]*ssa.Function{}, tags: map[string]int{},
		fnids: map[*ssa.Function]int{}, loops: map[*ssa.Function]map[*ssa.BasicBlock]*loopInfoT{}, ufuns: map[string]*ufunDecl{},
		policies: map[string]*policyInfo{}, typesByDir: map[string]*types.Package{}, allPkgs: map[string]*types.Package{}}
	if b, err := os.ReadFile(filepath.Join(filepath.Dir(filepath.Dir(trustedDir)), "locals.lock.json")); err == nil {
		json.Unmarshal(b, &e.lockedLocals)
	}
	var all []*ssa.Function
	for fn := range ssautil.AllFunctions(prog) {
		if fn.Pkg == nil || !isHeliosPkg(fn.Pkg.Pkg) {
			continue
		}
		all = append(all, fn)
	}
	sort.Slice(all, func(i, j int) bool { return all[i].String() < all[j].String() })
	for _, fn := range all {
		if fn.Synthetic != "" && !strings.Contains(fn.Synthetic, "package initializer") {
			continue
		}
		dir := pkgDirOf(fn.Pkg.Pkg)
		e.fns[dir+"|"+relName(fn)] = fn
		e.fnList = append(e.fnList, fn)
	}
	for _, sp := range prog.AllPackages() {
		tp := sp.Pkg
		e.allPkgs[tp.Path()] = tp
		if _, ok := e.allPkgs[tp.Name()]; !ok || isHeliosPkg(tp) {
			e.allPkgs[tp.Name()] = tp
		}
		if isHeliosPkg(tp) {
			e.typesByDir[pkgDirOf(tp)] = tp
		}
	}
	// prefer std packages for ambiguous short names
	for _, std := range []string{"net/http", "net", "time", "sync", "strings", "context", "net/url", "net/http/httputil", "bytes", "io", "bufio", "errors", "fmt", "os"} {
		if tp, ok := e.allPkgs[std]; ok {
			e.allPkgs[tp.Name()] = tp
		}
	}
	if tp := e.allPkgs["time"]; tp != nil {
		e.timeType = tp.Scope().Lookup("Time").Type()
	}
	e.mutexKeys = map[string]bool{}
	for _, tp := range e.typesByDir {
		for _, n := range tp.Scope().Names() {
			tn, ok := tp.Scope().Lookup(n).(*types.TypeName)
			if !ok {
				continue
			}
			st, ok := tn.Type().Underlying().(*types.Struct)
			if !ok {
				continue
			}
			for i := 0; i < st.NumFields(); i++ {
				if isMutex(st.Field(i).Type()) {
					e.mutexKeys[tp.Name()+"."+tn.Name()+"."+st.Field(i).Name()] = true
				}
			}
		}
	}
	cs, err := LoadContracts(repo, trustedDir)
	if err != nil {
		return nil, err
	}
	e.cs = cs
	for _, u := range cs.UFuns {
		e.ufuns[u.Name] = &ufunDecl{name: u.Name, args: u.Args, ret: u.Ret}
	}
	for _, fp := range cs.Policies {
		tk := e.qualType(fp.Pkg, fp.Type)
		pi := &policyInfo{FieldPolicy: fp, key: tk + "." + fp.Field}
		if fp.Policy == "guarded_by" {
			i := strings.LastIndex(fp.Guard, ".")
			gt := e.qualType(fp.Pkg, fp.Guard[:i])
			pi.guardKey = gt + "." + fp.Guard[i+1:]
			pi.sameObject = gt == tk
		}
		if len(pi.Props) == 0 {
			pi.Props = []string{"C12"}
		}
		e.policies[pi.key] = pi
	}
	return e, nil
}

func (e *Engine) pkgByDir(dir string) *types.Package { return e.typesByDir[dir] }

// qualType: heap key of a type named in a contract file of package dir.
func (e *Engine) qualType(dir, name string) string {
	name = strings.TrimPrefix(name, "*")
	if i := strings.LastIndex(name, "."); i >= 0 {
		pn := name[:i]
		if tp, ok := e.allPkgs[pn]; ok {
			if isHeliosPkg(tp) {
				return tp.Name() + "." + name[i+1:]
			}
			return tp.Path() + "." + name[i+1:]
		}
		return name
	}
	if tp := e.typesByDir[dir]; tp != nil {
		return tp.Name() + "." + name
	}
	return name
}

func (e *Engine) parseType(pkg *types.Package, s string) types.Type {
	s = strings.TrimSpace(s)
	switch s {
	case "int", "Int":
		return types.Typ[types.Int]
	case "int32":
		return types.Typ[types.Int32]
	case "int64":
		return types.Typ[types.Int64]
	case "uint32":
		return types.Typ[types.Uint32]
	case "uint64":
		return types.Typ[types.Uint64]
	case "float64":
		return types.Typ[types.Float64]
	case "int8":
		return types.Typ[types.Int8]
	case "uint8", "byte":
		return types.Typ[types.Uint8]
	case "bool", "Bool":
		return types.Typ[types.Bool]
	case "string", "String":
		return types.Typ[types.String]
	case "Time":
		return e.timeType
	case "Duration":
		return e.allPkgs["time"].Scope().Lookup("Duration").Type()
	case "any", "interface{}":
		return types.NewInterfaceType(nil, nil)
	case "Ref":
		return types.Typ[types.Int]
	}
	if strings.HasPrefix(s, "*") {
		if t := e.parseType(pkg, s[1:]); t != nil {
			return types.NewPointer(t)
		}
		return nil
	}
	if strings.HasPrefix(s, "[]") {
		if t := e.parseType(pkg, s[2:]); t != nil {
			return types.NewSlice(t)
		}
		return nil
	}
	if i := strings.LastIndex(s, "."); i >= 0 {
		if tp, ok := e.allPkgs[s[:i]]; ok {
			if o := tp.Scope().Lookup(s[i+1:]); o != nil {
				return o.Type()
			}
		}
		return nil
	}
	if pkg != nil {
		if o := pkg.Scope().Lookup(s); o != nil {
			return o.Type()
		}
	}
	return nil
}

func (e *Engine) contractOf(fn *ssa.Function) *FuncContract {
	if fn.Pkg == nil {
		return nil
	}
	return e.cs.Funcs[pkgDirOf(fn.Pkg.Pkg)+"|"+relName(fn)]
}

func (e *Engine) lookupSpec(name string) *FuncContract {
	if fc, ok := e.cs.Funcs["|"+name]; ok {
		return fc
	}
	return nil
}

func (e *Engine) lookupFuncValueSpec(fn *ssa.Function, origin string) *FuncContract {
	if fn.Pkg == nil {
		return nil
	}
	// walk up to enclosing functions (closures may call a captured function value)
	for f := fn; f != nil; f = f.Parent() {
		if fc, ok := e.cs.Funcs[pkgDirOf(fn.Pkg.Pkg)+"|fnvalue:"+relName(f)+":"+origin]; ok {
			return fc
		}
	}
	return nil
}

// inlinable: anonymous functions lexically inside the function under verification (or inside an
// already inlined one) are part of its body; small straight-line helpers without a contract too.
func (e *Engine) inlinable(fn, under *ssa.Function) bool {
	for f := fn.Parent(); f != nil; f = f.Parent() {
		if f == under {
			return true
		}
	}
	if len(fn.Blocks) == 0 {
		return false
	}
	// loop-free helpers without a contract are executed in place (an extracted helper must not need a contract
	// of its own to keep its caller's proof); debug pseudo-instructions do not count towards the size
	n := 0
	for _, b := range fn.Blocks {
		for _, ins := range b.Instrs {
			if _, dbg := ins.(*ssa.DebugRef); !dbg {
				n++
			}
		}
	}
	if n > 150 || len(fn.Blocks) > 40 || len(e.loopInfo(fn)) > 0 {
		return false
	}
	return true
}

func (e *Engine) typeTag(t types.Type) string {
	k := types.TypeString(t, nil)
	if id, ok := e.tags[k]; ok {
		return fmt.Sprint(id)
	}
	id := len(e.tags) + 1
	e.tags[k] = id
	e.tagTypes = append(e.tagTypes, t)
	return fmt.Sprint(id)
}

// implementsPred: Bool term "the dynamic type with tag `tag` implements interface it".
// Encoded as a disjunction over the known concrete types (closed world of tags seen so far) plus an
// uninterpreted predicate for unknown tags.
func (e *Engine) implementsPred(c *FnCtx, tag string, it types.Type) string {
	iface, ok := it.Underlying().(*types.Interface)
	if !ok {
		return "false"
	}
	name := "impl_" + strings.NewReplacer("/", "_", ".", "_", "*", "p").Replace(typeKey(it))
	uf := &ufunDecl{name: name, args: []string{"Int"}, ret: "Bool"}
	c.declareUF(uf)
	// facts for known tags
	for k, id := range e.tags {
		_ = k
		t := e.tagTypes[id-1]
		fact := fmt.Sprintf("(= (%s %d) %s)", name, id, boolT(types.Implements(t, iface)))
		c.axiom(fact)
	}
	return fmt.Sprintf("(%s %s)", name, tag)
}

func (c *FnCtx) declareUF(u *ufunDecl) {
	if c.declared["uf:"+u.name] {
		return
	}
	c.declared["uf:"+u.name] = true
	c.decls = append(c.decls, fmt.Sprintf("(declare-fun %s (%s) %s)", u.name, strings.Join(u.args, " "), u.ret))
}

func (c *FnCtx) axiom(f string) {
	if c.declared["ax:"+f] {
		return
	}
	c.declared["ax:"+f] = true
	c.decls = append(c.decls, "(assert "+f+")")
}

// fnID: function identities are negative integers, disjoint from object references (which are >= 0)
func (e *Engine) fnID(fn *ssa.Function) string {
	if id, ok := e.fnids[fn]; ok {
		return fmt.Sprintf("(- %d)", id)
	}
	id := len(e.fnids) + 1000
	e.fnids[fn] = id
	return fmt.Sprintf("(- %d)", id)
}

func (e *Engine) policyFor(key string) *policyInfo {
	if p, ok := e.policies[key]; ok {
		return p
	}
	return nil
}

func (e *Engine) ownerTerm(c *FnCtx, p *Path, pol *policyInfo, ptr Val) string { return "" }

// recCall: recursive spec functions are declared as uninterpreted functions over (heap-independent)
// arguments plus their unfolding axiom instantiated at the call's arguments (one unfolding).
func (e *Engine) recCall(ec *EvalCtx, pd *PredDef, n ECall) Val {
	return ec.fail("recursive spec functions not supported yet: %s", pd.Name)
}

// ---------- loops ----------

type loopInfoT struct {
	header  *ssa.BasicBlock
	body    map[*ssa.BasicBlock]bool
	ordinal int
	back    map[*ssa.BasicBlock]bool // predecessors that are back edges
}

func (e *Engine) loopInfo(fn *ssa.Function) map[*ssa.BasicBlock]*loopInfoT {
	if li, ok := e.loops[fn]; ok {
		return li
	}
	res := map[*ssa.BasicBlock]*loopInfoT{}
	for _, b := range fn.Blocks {
		for _, s := range b.Succs {
			if s.Dominates(b) { // back edge b -> s
				li := res[s]
				if li == nil {
					li = &loopInfoT{header: s, body: map[*ssa.BasicBlock]bool{s: true}, back: map[*ssa.BasicBlock]bool{}}
					res[s] = li
				}
				li.back[b] = true
				// natural loop: nodes reaching b without passing s
				stack := []*ssa.BasicBlock{b}
				for len(stack) > 0 {
					x := stack[len(stack)-1]
					stack = stack[:len(stack)-1]
					if li.body[x] {
						continue
					}
					li.body[x] = true
					stack = append(stack, x.Preds...)
				}
			}
		}
	}
	// ordinals in source order of header position
	var hs []*ssa.BasicBlock
	for h := range res {
		hs = append(hs, h)
	}
	sort.Slice(hs, func(i, j int) bool { return headerPos(hs[i]) < headerPos(hs[j]) })
	for i, h := range hs {
		res[h].ordinal = i
	}
	e.loops[fn] = res
	return res
}

func headerPos(b *ssa.BasicBlock) int { return b.Index }

// implementations: for an interface type defined in the Helios module, the (pointer or value) types of the
// module that implement it. Empty for interfaces from dependencies (open world).
func (e *Engine) implementations(it types.Type) []types.Type {
	n, ok := types.Unalias(it).(*types.Named)
	if !ok || !isHeliosPkg(n.Obj().Pkg()) {
		return nil
	}
	iface, ok := n.Underlying().(*types.Interface)
	if !ok {
		return nil
	}
	var out []types.Type
	var dirs []string
	for d := range e.typesByDir {
		dirs = append(dirs, d)
	}
	sort.Strings(dirs)
	for _, d := range dirs {
		tp := e.typesByDir[d]
		for _, name := range tp.Scope().Names() {
			tn, ok := tp.Scope().Lookup(name).(*types.TypeName)
			if !ok || types.IsInterface(tn.Type()) {
				continue
			}
			if types.Implements(types.NewPointer(tn.Type()), iface) {
				out = append(out, types.NewPointer(tn.Type()))
			} else if types.Implements(tn.Type(), iface) {
				out = append(out, tn.Type())
			}
		}
	}
	return out
}

// someMethodModifies: does any contracted method of (pointer to) struct type st list field name in its modifies clause?
func (e *Engine) someMethodModifies(st types.Type, field string) bool {
	n, ok := types.Unalias(st).(*types.Named)
	if !ok {
		return true
	}
	prefix := "(*" + n.Obj().Name() + ")."
	for _, fc := range e.cs.Funcs {
		if fc.Trusted || !strings.HasPrefix(fc.Name, prefix) {
			continue
		}
		for _, m := range fc.Modifies {
			m = strings.TrimSpace(m)
			if m == "*" || strings.HasSuffix(m, "."+field) {
				return true
			}
		}
	}
	return false
}

// localNames lists the local variables a function declares (parameters, results and the bodies of nested
// function literals excluded), in source order.
func (e *Engine) localNames(fn *ssa.Function) []string {
	syn := fn.Syntax()
	if syn == nil || fn.Pkg == nil {
		return nil
	}
	var info *types.Info
	for _, p := range e.pkgs {
		if p.Types == fn.Pkg.Pkg {
			info = p.TypesInfo
		}
	}
	if info == nil {
		return nil
	}
	var body *ast.BlockStmt
	switch n := syn.(type) {
	case *ast.FuncDecl:
		body = n.Body
	case *ast.FuncLit:
		body = n.Body
	}
	if body == nil {
		return nil
	}
	type ent struct {
		pos  token.Pos
		name string
	}
	var out []ent
	ast.Inspect(body, func(n ast.Node) bool {
		if _, lit := n.(*ast.FuncLit); lit {
			return false
		}
		if id, ok := n.(*ast.Ident); ok && id.Name != "_" {
			if v, isVar := info.Defs[id].(*types.Var); isVar && !v.IsField() {
				out = append(out, ent{id.Pos(), id.Name})
			}
		}
		return true
	})
	sort.Slice(out, func(i, j int) bool { return out[i].pos < out[j].pos })
	names := make([]string, len(out))
	for i, x := range out {
		names[i] = x.name
	}
	return names
}

func (e *Engine) fnKey(fn *ssa.Function) string {
	if fn.Pkg == nil {
		return ""
	}
	return pkgDirOf(fn.Pkg.Pkg) + "|" + relName(fn)
}

// aliases: contract name -> current name, for locals that were renamed since the contracts were locked. Only when
// the function declares the same number of locals as then (a pure rename keeps positions); otherwise no alias
// is made and a contract naming a vanished local fails to bind as before.
func (e *Engine) aliases(fn *ssa.Function) map[string]string {
	if a, ok := e.aliasCache[fn]; ok {
		return a
	}
	if e.aliasCache == nil {
		e.aliasCache = map[*ssa.Function]map[string]string{}
	}
	var al map[string]string
	locked, ok := e.lockedLocals[e.fnKey(fn)]
	cur := e.localNames(fn)
	if ok && len(locked) == len(cur) {
		for i := range cur {
			if locked[i] != cur[i] {
				if al == nil {
					al = map[string]string{}
				}
				al[locked[i]] = cur[i]
			}
		}
	}
	e.aliasCache[fn] = al
	return al
}

// paramNames: receiver, parameters and named results in signature order.
func (e *Engine) paramNames(fn *ssa.Function) []string {
	var out []string
	for _, p := range fn.Params {
		out = append(out, p.Name())
	}
	res := fn.Signature.Results()
	for i := 0; i < res.Len(); i++ {
		out = append(out, "="+res.At(i).Name())
	}
	return out
}

// paramAliases: contract name -> current name for parameters/receiver/named results renamed since the lock
// (same signature length only; positions identify them).
func (e *Engine) paramAliases(fn *ssa.Function) map[string]string {
	locked, ok := e.lockedLocals[e.fnKey(fn)+"#params"]
	cur := e.paramNames(fn)
	if !ok || len(locked) != len(cur) {
		return nil
	}
	var al map[string]string
	for i := range cur {
		a, b := strings.TrimPrefix(locked[i], "="), strings.TrimPrefix(cur[i], "=")
		if a != b && a != "" && a != "_" && b != "" && b != "_" {
			if al == nil {
				al = map[string]string{}
			}
			al[a] = b
		}
	}
	return al
}

// aliasEnv makes the names a contract was written with available in env when the code has renamed them.
func (e *Engine) aliasEnv(fn *ssa.Function, env map[string]Val) {
	if fn == nil {
		return
	}
	for _, m := range []map[string]string{e.paramAliases(fn), e.aliases(fn)} {
		for was, now := range m {
			if _, has := env[was]; !has {
				if v, ok := env[now]; ok {
					env[was] = v
				}
			}
		}
	}
}

func (e *Engine) hasAnyContract(fn *ssa.Function) bool {
	if e.contractOf(fn) != nil {
		return true
	}
	for _, li := range e.loopInfo(fn) {
		if e.cs.Loops[fmt.Sprintf("%s|%s#%d", pkgDirOf(fn.Pkg.Pkg), relName(fn), li.ordinal)] != nil {
			return true
		}
	}
	return false
}

// mustPrecede: the declared lock order requires `first` to be acquired before `second`.
func (e *Engine) mustPrecede(first, second string) bool {
	for _, chain := range e.cs.LockOrders {
		fi, si := -1, -1
		for i, r := range chain {
			k := e.qualType(r.Pkg, r.Type) + "." + r.Mutex
			if k == first {
				fi = i
			}
			if k == second {
				si = i
			}
		}
		if fi >= 0 && si >= 0 && fi < si {
			return true
		}
	}
	return false
}

// fieldOffset32: offset of the field named by a heap key "pkg.Type.field" under 32-bit gc sizes.
func (e *Engine) fieldOffset32(key string) (int64, bool) {
	i := strings.LastIndex(key, ".")
	if i < 0 {
		return 0, false
	}
	tn, fld := key[:i], key[i+1:]
	j := strings.LastIndex(tn, ".")
	if j < 0 {
		return 0, false
	}
	pkg, ok := e.allPkgs[tn[:j]]
	if !ok {
		return 0, false
	}
	obj := pkg.Scope().Lookup(tn[j+1:])
	if obj == nil {
		return 0, false
	}
	st, ok := obj.Type().Underlying().(*types.Struct)
	if !ok {
		return 0, false
	}
	var fields []*types.Var
	idx := -1
	for k := 0; k < st.NumFields(); k++ {
		fields = append(fields, st.Field(k))
		if st.Field(k).Name() == fld {
			idx = k
		}
	}
	if idx < 0 {
		return 0, false
	}
	sz := types.SizesFor("gc", "386")
	if sz == nil {
		return 0, false
	}
	return sz.Offsetsof(fields)[idx], true
}
