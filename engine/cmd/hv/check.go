package main

import (
	"encoding/json"
	"fmt"
	"os"
	"path/filepath"
	"regexp"
	"sort"
	"strings"
	"time"

	"golang.org/x/tools/go/ssa"
)

type PropMeta struct {
	Level       string   `json:"level"`     // proof | other
	Uncovered   []string `json:"uncovered"` // clauses not decided by this technique
	Assumptions []string `json:"assumptions"`
	Explanation string   `json:"explanation"`
	Bounded     []string `json:"bounded"`
}

type KnownFinding struct {
	Property   string `json:"property"`
	Obligation string `json:"obligation"`
	Witness    string `json:"witness"`
	PathRe     string `json:"path_regex,omitempty"`
	Replay     string `json:"replay,omitempty"`
}

type KnownFile struct {
	Findings []KnownFinding `json:"findings"`
	Fixed    []string       `json:"fixed"`
}

func readJSON(path string, v interface{}) error {
	b, err := os.ReadFile(path)
	if err != nil {
		return err
	}
	return json.Unmarshal(b, v)
}

func hasProp(ps []string, id string) bool {
	for _, p := range ps {
		if p == id {
			return true
		}
	}
	return false
}

// funcsFor: functions (and modes) serving a property, from the props lines of the contract files.
func (e *Engine) funcsFor(id string) (fns []*ssa.Function, modes map[*ssa.Function][]string) {
	modes = map[*ssa.Function][]string{}
	seen := map[*ssa.Function]bool{}
	add := func(fn *ssa.Function, ms []string) {
		if !seen[fn] {
			seen[fn] = true
			fns = append(fns, fn)
		}
		if len(ms) == 0 {
			ms = []string{"seq"}
		}
		modes[fn] = ms
	}
	for key, fc := range e.cs.Funcs {
		if fc.Trusted || !hasProp(fc.Props, id) {
			continue
		}
		fn := e.fns[key]
		if fn == nil {
			continue
		}
		add(fn, fc.Modes)
	}
	sort.Slice(fns, func(i, j int) bool { return fns[i].String() < fns[j].String() })
	return
}

type Evidence struct {
	PropertyID  string                 `json:"property_id"`
	Tier        string                 `json:"tier"`
	Seed        int                    `json:"seed"`
	Level       string                 `json:"level"`
	Coverage    map[string]interface{} `json:"coverage"`
	Assumptions []string               `json:"assumptions"`
	WallS       float64                `json:"wall_s"`
	Violations  int                    `json:"violations"`
}

func sanitize(s string) string {
	return regexp.MustCompile(`[^A-Za-z0-9_.-]+`).ReplaceAllString(s, "_")
}

// RunCheck verifies one property; returns the process exit code.
func RunCheck(id, tier string, seed int, verifDir string) int {
	t0 := time.Now()
	e, err := LoadEngine(repoDir(), filepath.Join(verifDir, "contracts/trusted"))
	if err != nil {
		fmt.Printf("hv: cannot load /repo with -tags verif: %v\n", err)
		return writeBroken(id, tier, seed, verifDir, "load error: "+err.Error(), t0)
	}
	loadS := time.Since(t0).Seconds()
	var metas map[string]PropMeta
	readJSON(filepath.Join(verifDir, "contracts/props.json"), &metas)
	meta := metas[id]
	if meta.Level == "" {
		meta.Level = "proof"
	}
	var known KnownFile
	readJSON(filepath.Join(verifDir, "known_findings.json"), &known)
	var lock map[string][]string
	readJSON(filepath.Join(verifDir, "obligations.lock.json"), &lock)

	timeout := 20
	all := false
	if tier == "thorough" {
		timeout = 120
		all = true
	}
	fns, modes := e.funcsFor(id)
	var obs []*Obligation
	var freps []*FuncReport
	missingFuncs := []string{}
	// contracts that no longer bind
	for key, fc := range e.cs.Funcs {
		if !fc.Trusted && hasProp(fc.Props, id) && e.fns[key] == nil && !strings.HasPrefix(fc.Name, "fnvalue:") {
			missingFuncs = append(missingFuncs, key)
		}
	}
	for _, fn := range fns {
		for _, m := range modes[fn] {
			rep := e.VerifyFunc(fn, m)
			if m != "seq" {
				for _, ob := range rep.Obs {
					ob.Name = ob.Name + "[" + m + "]"
				}
				for _, ob := range rep.Vacuity {
					ob.Name = ob.Name + "[" + m + "]"
				}
			}
			freps = append(freps, rep)
			for _, ob := range rep.Obs {
				if ob.Only && !hasProp(ob.Props, id) {
					continue // clause attributed to other properties only
				}
				obs = append(obs, ob)
			}
			obs = append(obs, rep.Vacuity...)
		}
	}
	lemObs, lemNames := e.LemmaObligations(id)
	obs = append(obs, lemObs...)
	fwObs := e.ForwardObligations(id)
	obs = append(obs, fwObs...)
	genS := time.Since(t0).Seconds() - loadS
	res := Discharge(obs, runOpts{timeoutS: timeout, all: all, workers: 16})
	solveS := time.Since(t0).Seconds() - loadS - genS

	// classify
	outDir := filepath.Join(outBase(verifDir), "replay/out")
	os.MkdirAll(outDir, 0o755)
	violations := 0
	knownSeen := []string{}
	discharged := 0
	perSolver := map[string]float64{}
	perSolverN := map[string]int{}
	var obsOut []map[string]interface{}
	names := map[string]bool{}
	report := func(r *ObResult, reason string) {
		// known finding?
		for _, k := range known.Findings {
			if k.Property == id && k.Obligation == r.Name {
				if k.PathRe == "" || regexp.MustCompile(k.PathRe).MatchString(r.FailPath) {
					fmt.Printf("KNOWN-FINDING: property=%s %s — %s\n", id, r.Name, k.Witness)
					knownSeen = append(knownSeen, r.Name)
					return
				}
			}
		}
		violations++
		f := filepath.Join(outDir, id+"-"+sanitize(r.Name)+".json")
		rp := map[string]interface{}{"property": id, "obligation": r.Name, "kind": r.Kind, "clause": r.Src, "status": r.Status, "reason": reason,
			"path": r.FailPath, "solver": r.Solver, "solver_output": r.Raw, "model": r.Model, "tier": tier}
		confirmed := false
		if r.Status == "failed" && r.Model != "" {
			confirmed = TryReplay(e, r, rp, verifDir)
		}
		b, _ := json.MarshalIndent(rp, "", " ")
		os.WriteFile(f, b, 0o644)
		if r.Query != "" {
			os.WriteFile(strings.TrimSuffix(f, ".json")+".smt2", []byte(prelude+r.Query+"(check-sat)\n(get-model)\n"), 0o644)
		}
		if confirmed {
			fmt.Printf("VIOLATION property=%s replay=%s\n", id, f)
		} else {
			fmt.Printf("VIOLATION property=%s replay=%s no-failing-input-found\n", id, f)
		}
		fmt.Printf("  obligation %s [%s]: %s — %s\n", r.Name, r.Status, r.Src, reason)
	}
	for _, r := range res {
		names[r.Name] = true
		if r.Solver != "" {
			perSolver[r.Solver] += r.TimeS
			perSolverN[r.Solver]++
		}
		obsOut = append(obsOut, map[string]interface{}{"name": r.Name, "kind": r.Kind, "mode": r.Mode, "paths": r.Paths, "status": r.Status,
			"solver": r.Solver, "time_s": round3(r.TimeS), "max_query_s": round3(r.MaxS), "smt_bytes": r.SmtBytes, "clause": r.Src})
		switch r.Status {
		case "discharged":
			discharged++
		case "failed":
			if r.Kind == "vacuity" {
				report(r, "vacuity: the precondition is unsatisfiable, every proof under it would be empty")
			} else {
				report(r, "solver found a counterexample to the obligation")
			}
		default:
			report(r, "obligation not discharged by any solver within the time limit (undecided)")
		}
	}
	// lock-file comparison: obligations that used to exist must still be generated
	for _, n := range lock[id] {
		if !names[n] {
			r := &ObResult{Name: n, Kind: "missing", Status: "undecided", Src: "obligation discharged on the pinned tree is no longer generated (contract no longer binds, function left the subset, or code path removed)"}
			report(r, "locked obligation not generated")
		}
	}
	for _, m := range missingFuncs {
		r := &ObResult{Name: m + "/binding", Kind: "missing", Status: "undecided", Src: "contract names a function that no longer exists"}
		report(r, "contract does not bind")
	}
	for _, fr := range freps {
		if fr.Aborted != "" {
			r := &ObResult{Name: fr.Func + "/engine/aborted", Kind: "missing", Status: "undecided", Src: fr.Aborted}
			report(r, "verification of the function was aborted")
		}
	}
	if len(e.contractErrors) > 0 {
		for _, ce := range uniq(e.contractErrors) {
			fmt.Println("CONTRACT-ERROR:", ce)
		}
		r := &ObResult{Name: id + "/contracts/well_formed", Kind: "missing", Status: "undecided", Src: strings.Join(uniq(e.contractErrors), "; ")}
		report(r, "a contract clause could not be evaluated against the current source")
	}
	if len(res) == 0 {
		r := &ObResult{Name: id + "/engine/no_obligations", Kind: "missing", Status: "undecided", Src: "the run generated no obligation for this property"}
		report(r, "empty obligation set")
	}

	// evidence
	var fuc []map[string]interface{}
	notes := map[string]bool{}
	trusted := map[string]bool{}
	defaults := map[string]bool{}
	inlined := map[string]bool{}
	unverified := map[string]bool{}
	for _, fr := range freps {
		fuc = append(fuc, map[string]interface{}{"func": fr.Func, "mode": fr.Mode, "ssa_instructions": fr.Instrs, "paths": fr.Paths})
		for _, n := range fr.Notes {
			notes[n] = true
		}
		for _, n := range fr.Trusted {
			trusted[n] = true
		}
		for _, n := range fr.Defaults {
			defaults[n] = true
		}
		for _, n := range fr.Inlined {
			inlined[n] = true
		}
		for _, n := range fr.Unverified {
			unverified[n] = true
		}
	}
	samples := []interface{}{}
	for i, r := range res {
		if i%((len(res)/4)+1) == 0 && len(samples) < 5 {
			samples = append(samples, map[string]interface{}{"obligation": r.Name, "clause": r.Src, "kind": r.Kind, "paths": r.Paths, "smt_bytes": r.SmtBytes, "status": r.Status, "solver": r.Solver})
		}
	}
	tb := []string{"hv (this engine): contract parser, go/ssa→SMT encoder, path enumerator", "go/packages+go/types+go/ssa (x/tools v0.29.0) lowering of /repo's working tree",
		"SMT solvers z3 5.1.0 / cvc5 1.0 / z3 4.8.12 (an unsat from one is accepted in quick; thorough requires no disagreement)"}
	for _, n := range sortedNotes(trusted) {
		tb = append(tb, "assumed contract: "+n)
	}
	for _, n := range sortedNotes(unverified) {
		tb = append(tb, "Helios function used through a contract that is stated but NOT verified by any check (assumed): "+n)
	}
	for _, n := range sortedNotes(defaults) {
		tb = append(tb, "external without spec (result arbitrary, no effect on Helios state): "+n)
	}
	assum := append([]string{}, meta.Assumptions...)
	assum = append(assum, "machine integers are modelled exactly (wrap-around), not as mathematical integers", "clock readings are non-negative, monotone per thread and below 2^62 ns")
	for _, n := range sortedNotes(notes) {
		assum = append(assum, "abstraction: "+n)
	}
	for k, n := range e.cs.Scan {
		assum = append(assum, fmt.Sprintf("assumption scan: %d × %q in contract/spec files", n, k))
	}
	sort.Strings(assum[len(meta.Assumptions):])
	cov := map[string]interface{}{
		"obligations": len(res) - len(knownSeen), "discharged": discharged, "known_finding_obligations": len(knownSeen),
		"checker_cmd":              fmt.Sprintf("bin/hv check %s %s", id, tier),
		"trusted_base":             tb,
		"functions_under_contract": fuc,
		"lemmas":                   lemNames,
		"obligation_list":          obsOut,
		"solver_time_s":            round3(solveS), "load_s": round3(loadS), "vcgen_s": round3(genS),
		"solver_time_by_backend": perSolver, "discharged_by_backend": perSolverN,
		"inlined_callees":     sortedNotes(inlined),
		"uncovered_clauses":   meta.Uncovered,
		"bounded":             meta.Bounded,
		"known_findings_seen": knownSeen,
		"samples":             samples,
		"explanation":         meta.Explanation,
		"paths_total":         totalPaths(freps),
	}
	if meta.Level != "proof" {
		cov["evaluations"] = len(res)
		cov["distinct_nontrivial"] = discharged
	}
	ev := Evidence{PropertyID: id, Tier: tier, Seed: seed, Level: meta.Level, Coverage: cov, Assumptions: assum, WallS: round3(time.Since(t0).Seconds()), Violations: violations}
	os.MkdirAll(filepath.Join(outBase(verifDir), "evidence"), 0o755)
	b, _ := json.MarshalIndent(ev, "", " ")
	os.WriteFile(filepath.Join(outBase(verifDir), "evidence", id+".json"), b, 0o644)
	fmt.Printf("%s %s: %d obligations, %d discharged, %d violations, %d known findings, %.1fs (load %.1f, vcgen %.1f, solve %.1f)\n", id, tier, len(res), discharged, violations, len(knownSeen), time.Since(t0).Seconds(), loadS, genS, solveS)
	if violations > 0 {
		return 1
	}
	return 0
}

func uniq(s []string) []string {
	m := map[string]bool{}
	var out []string
	for _, x := range s {
		if !m[x] {
			m[x] = true
			out = append(out, x)
		}
	}
	return out
}

func totalPaths(fr []*FuncReport) int {
	n := 0
	for _, f := range fr {
		n += f.Paths
	}
	return n
}

func round3(f float64) float64 { return float64(int(f*1000+0.5)) / 1000 }

func writeBroken(id, tier string, seed int, verifDir, why string, t0 time.Time) int {
	f := filepath.Join(outBase(verifDir), "replay/out", id+"-engine.json")
	os.MkdirAll(filepath.Dir(f), 0o755)
	b, _ := json.MarshalIndent(map[string]interface{}{"property": id, "obligation": id + "/engine/load", "reason": why}, "", " ")
	os.WriteFile(f, b, 0o644)
	fmt.Printf("VIOLATION property=%s replay=%s no-failing-input-found\n", id, f)
	ev := Evidence{PropertyID: id, Tier: tier, Seed: seed, Level: "other", Coverage: map[string]interface{}{"explanation": "engine could not load the repository: " + why, "evaluations": 1, "distinct_nontrivial": 0}, WallS: round3(time.Since(t0).Seconds()), Violations: 1}
	os.MkdirAll(filepath.Join(outBase(verifDir), "evidence"), 0o755)
	eb, _ := json.MarshalIndent(ev, "", " ")
	os.WriteFile(filepath.Join(outBase(verifDir), "evidence", id+".json"), eb, 0o644)
	return 1
}

// WriteLock regenerates obligations.lock.json from a run over all properties (only discharged or known-finding names).
func WriteLock(verifDir string, ids []string) error {
	e, err := LoadEngine(repoDir(), filepath.Join(verifDir, "contracts/trusted"))
	if err != nil {
		return err
	}
	lock := map[string][]string{}
	readJSON(filepath.Join(verifDir, "obligations.lock.json"), &lock) // other properties keep their entries
	for _, id := range ids {
		lock[id] = nil
		fns, modes := e.funcsFor(id)
		var obs []*Obligation
		for _, fn := range fns {
			for _, m := range modes[fn] {
				rep := e.VerifyFunc(fn, m)
				if m != "seq" {
					for _, ob := range rep.Obs {
						ob.Name += "[" + m + "]"
					}
					for _, ob := range rep.Vacuity {
						ob.Name += "[" + m + "]"
					}
				}
				for _, ob := range rep.Obs {
					if ob.Only && !hasProp(ob.Props, id) {
						continue
					}
					obs = append(obs, ob)
				}
				obs = append(obs, rep.Vacuity...)
			}
		}
		lo, _ := e.LemmaObligations(id)
		obs = append(obs, lo...)
		obs = append(obs, e.ForwardObligations(id)...)
		seen := map[string]bool{}
		for _, ob := range obs {
			if !seen[ob.Name] {
				seen[ob.Name] = true
				lock[id] = append(lock[id], ob.Name)
			}
		}
		sort.Strings(lock[id])
	}
	b, _ := json.MarshalIndent(lock, "", " ")
	if err := os.WriteFile(filepath.Join(verifDir, "obligations.lock.json"), b, 0o644); err != nil {
		return err
	}
	// names of the local variables of every function under contract, in declaration order: lets a contract that
	// names a local survive a pure rename of that local (see Engine.aliases)
	locals := map[string][]string{}
	readJSON(filepath.Join(verifDir, "locals.lock.json"), &locals)
	for key, fn := range e.fns {
		if e.hasAnyContract(fn) {
			locals[key] = e.localNames(fn)
			locals[key+"#params"] = e.paramNames(fn)
		}
	}
	lb, _ := json.MarshalIndent(locals, "", " ")
	return os.WriteFile(filepath.Join(verifDir, "locals.lock.json"), lb, 0o644)
}

// repoDir: the tree under verification. Always /repo for the registered commands; HV_REPO lets experiments
// (seeded changes in scratch worktrees) run without touching /repo, together with HV_OUT for their reports.
func repoDir() string {
	if r := os.Getenv("HV_REPO"); r != "" {
		return r
	}
	return "/repo"
}

func outBase(verifDir string) string {
	if o := os.Getenv("HV_OUT"); o != "" {
		return o
	}
	return verifDir
}
