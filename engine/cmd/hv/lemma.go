package main

// Lemmas (pure SMT obligations stated in the contract language) and capability ("forwards") obligations.

func (e *Engine) LemmaObligations(id string) ([]*Obligation, []string) { return nil, nil }

func (e *Engine) ForwardObligations(id string) []*Obligation { return nil }
