package main

import (
	"fmt"
	"go/types"
	"strings"
)

// Lemmas (pure SMT obligations stated in the contract language) and capability ("forwards") obligations.

func (e *Engine) LemmaObligations(id string) ([]*Obligation, []string) { return nil, nil }

// ForwardObligations: `forwards T : I1, I2` — the wrapper type *T offers every optional interface listed
// (so a wrapped writer keeps that capability), either directly or, for Flusher, through Unwrap() which
// http.ResponseController follows. Decided by go/types method sets (back end: the Go type checker); that the
// method body actually delegates is a separate `post` obligation on the method's contract.
func (e *Engine) ForwardObligations(id string) []*Obligation {
	var out []*Obligation
	for _, fw := range e.cs.Forwards {
		if !hasProp(fw.Props, id) {
			continue
		}
		pkg := e.pkgByDir(fw.Pkg)
		t := e.parseType(pkg, fw.Type)
		ctx := &FnCtx{eng: e, declared: map[string]bool{}, heapSort: map[string]string{}, notes: map[string]bool{}, mode: "seq"}
		for _, in := range fw.Ifaces {
			name := fmt.Sprintf("%s.%s/forwards/%s", pkg.Name(), fw.Type, strings.ReplaceAll(in, ".", "_"))
			goal := "false"
			if t != nil {
				it := e.parseType(pkg, in)
				pt := types.NewPointer(t)
				if it != nil {
					if iface, ok := it.Underlying().(*types.Interface); ok && types.Implements(pt, iface) {
						goal = "(= 1 1)"
					}
				}
				if goal == "false" && in == "http.Flusher" {
					// ResponseController also accepts an Unwrap() http.ResponseWriter method
					ms := types.NewMethodSet(pt)
					if sel := ms.Lookup(pkg, "Unwrap"); sel != nil {
						goal = "(= 1 1)"
					}
				}
			}
			out = append(out, &Obligation{Name: name, Kind: "forwards", Func: pkg.Name() + "." + fw.Type, Ctx: ctx, Goal: goal,
				Src: "wrapper " + fw.Type + " keeps the optional interface " + in + " of the writer it wraps", Props: fw.Props})
		}
	}
	return out
}
