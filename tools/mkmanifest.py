#!/usr/bin/env python3
# Regenerates MANIFEST.json from tools/claims.json (what is claimed, at which level, with which notes).
import json, subprocess, os
here = os.path.dirname(os.path.abspath(__file__))
root = os.path.dirname(here)
claims = json.load(open(os.path.join(here, 'claims.json')))
props = [json.loads(l) for l in open(os.path.join(root, 'properties.jsonl'))]
hooks_commits = subprocess.run(['git', '-C', '/repo', 'log', '--format=%H %s'], capture_output=True, text=True).stdout.splitlines()
src = [l.split()[0] for l in hooks_commits if ' verif:' in l or ' hook:' in l]
m = {
 "version": 1,
 "setup_cmd": "cd engine && GOFLAGS=-mod=mod GOPROXY=off GOSUMDB=off GOTOOLCHAIN=local go build -o ../bin/hv ./cmd/hv",
 "hooks": {
  "guard": "verif",
  "enable": "go build tag `verif` (hv loads /repo with -tags verif); the guarded files are comment-only contract files zz_contracts_verif.go, no executable hooks",
  "baseline_off_cmd": "cd /repo && GOFLAGS=-mod=mod GOPROXY=off GOSUMDB=off go test -json -vet=off -count=1 -timeout 25m ./...",
  "source_commits": src,
  "add_only": True
 },
 "engines": [{"name": "hv", "path": "engine/cmd/hv", "serves_properties": sorted(claims['claimed'].keys()),
   "kind_free_text": "contract-based deductive verifier for Go written for this task: //@ contracts (requires/ensures/modifies/loop invariants/decreases/monitor invariants/ghost state/field permissions) bound to go/ssa functions of /repo's working tree, weakest-precondition style path obligations, discharged by z3 5.1.0, cvc5 1.0, z3 4.8.12"}],
 "checks": [], "not_applicable": [],
 "notes": "All checks are `./check <id> <tier>` = bin/hv check: reload /repo (-tags verif), regenerate every obligation of the functions whose contracts carry `props <id>`, discharge, compare with obligations.lock.json and known_findings.json. Exit 2 never happens on purpose: engine failures are reported as violations (no-failing-input-found)."
}
for p in props:
    id = p['id']
    if id in claims['claimed']:
        c = claims['claimed'][id]
        m['checks'].append({
         "property_id": id,
         "quick_cmd": f"./check {id} quick",
         "thorough_cmd": f"./check {id} thorough",
         "evidence_file": f"evidence/{id}.json",
         "replay_cmd_template": "./check --replay {path}",
         "engine": "hv",
         "level_claimed": {"category": c.get('category', 'proof'), "text": c['text'], "design_ref": c.get('design_ref', f"DESIGN.md §4 {id}")},
         "level_note": c['note'],
         "technique": c.get('technique', "function contracts + loop invariants on the real go/ssa, VCs discharged by SMT (z3/cvc5)")
        })
    else:
        m['not_applicable'].append({"property_id": id, "reason": claims['not_applicable'].get(id, "contracts for this property are not built yet in this round; no other technique is substituted")})
json.dump(m, open(os.path.join(root, 'MANIFEST.json'), 'w'), indent=1)
print("claimed:", sorted(claims['claimed']), "n/a:", len(m['not_applicable']))
