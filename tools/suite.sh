#!/bin/bash
# Runs the repository's own test suite (guard off) in $1 (default /repo) and compares with the baseline list of
# stable passes in /root/.vp/BASELINE.json: prints the baseline tests that did not pass.
d=${1:-/repo}
export GOFLAGS=-mod=mod GOPROXY=off GOSUMDB=off GOTOOLCHAIN=local
cd $d && go test -json -vet=off -count=1 -timeout 25m ./... > /tmp/suite.$$.json 2>/dev/null
python3 - /tmp/suite.$$.json <<'PY'
import json,sys
base=set(json.load(open('/root/.vp/BASELINE.json'))['stable_pass'])
ok=set()
for l in open(sys.argv[1]):
    try: e=json.loads(l)
    except: continue
    if e.get('Action')=='pass' and e.get('Test'): ok.add(e['Package']+'::'+e['Test'])
miss=sorted(base-ok)
print(len(base),'baseline tests,',len(base)-len(miss),'pass')
for m in miss: print('NOT PASSING',m)
PY
rm -f /tmp/suite.$$.json
