#!/usr/bin/env python3
"""Regenerates the generated tables of DESIGN.md in place: A.2 (status per property, from evidence/*.json and
contracts/props.json) and A.7 (seeded changes, from seeded/RESULTS.txt and seeded/*/meta.json). The regions are
delimited by <!-- A2:BEGIN --> / <!-- A2:END --> and <!-- A7:BEGIN --> / <!-- A7:END -->."""
import json, re, glob, os
os.chdir('/verif')
props = json.load(open('contracts/props.json'))
claims = {c['property_id']: c for c in json.load(open('MANIFEST.json'))['checks']}

def a2():
    rows = ['| id  | level | functions under contract | obligations | paths | modes | max query s | wall s | not decided (honest remainder) |',
            '|-----|-------|---:|---:|---:|---|---:|---:|---|']
    for i in range(1, 21):
        pid = 'C%02d' % i
        e = json.load(open('evidence/%s.json' % pid))
        c = e['coverage']
        fs = c['functions_under_contract']
        nf = len({f['func'] for f in fs})
        paths = sum(f['paths'] for f in fs)
        modes = '+'.join(sorted({f['mode'] for f in fs}))
        obs = c['obligation_list']
        mq = max((o.get('max_query_s', 0) for o in obs), default=0)
        meta = props.get(pid, {})
        rem = meta.get('remainder') or '; '.join(meta.get('uncovered', [])[:2]) or '—'
        kf = c.get('known_finding_obligations', 0)
        if kf:
            rem = ('' if rem == '—' else rem + ' — ') + '%d KNOWN FINDING (A.5)' % kf
        rows.append('| %s | %s | %d | %d | %d | %s | %.1f | %.0f | %s |' % (pid, e['level'], nf, len(obs), paths, modes, mq, e['wall_s'], rem))
    return '\n'.join(rows)

def a7():
    res = {}
    for l in open('seeded/RESULTS.txt'):
        n, _, rest = l.strip().partition(': ')
        res[n] = rest
    rows = ['| change | what it does (sub-agent\'s summary, shortened) | first obligation that fails |', '|---|---|---|']
    det = 0
    names = sorted(res)
    for n in names:
        m = json.load(open('seeded/%s/meta.json' % n))
        s = re.sub(r'\s+', ' ', m.get('summary', '')).replace('|', '/')
        if len(s) > 150:
            s = s[:148] + '…'
        r = res[n]
        if r.startswith('DETECTED'):
            det += 1
            rep = ' (replayed against the real code)' if r.startswith('DETECTED REPLAYED') else ''
            first = r.split(' ', 2 if rep else 1)[-1].split(';')[0].split(' [')[0]
            first = re.sub(r'^(loadbalancer|circuitbreaker|ratelimiter|metrics|config|plugins|adminapi|logging|utils|main)\.', '', first)
            cell = '`%s`%s' % (first, rep)
        elif r.startswith('MISSED'):
            cell = '**missed**'
        else:
            cell = r
        rows.append('| %s | %s | %s |' % (n, s, cell))
    head = 'Result: **%d of %d detected**, each by a named obligation (first one shown; `seeded/RESULTS.txt` has all):\n\n' % (det, len(names))
    return head + '\n'.join(rows)

d = open('DESIGN.md').read()
for tag, fn in (('A2', a2), ('A7', a7)):
    b, e = '<!-- %s:BEGIN -->' % tag, '<!-- %s:END -->' % tag
    if b in d and e in d:
        i, j = d.index(b) + len(b), d.index(e)
        d = d[:i] + '\n' + fn() + '\n' + d[j:]
    else:
        print('markers for', tag, 'missing')
open('DESIGN.md', 'w').write(d)
