#!/bin/bash
# Runs the registered quick check of the property against every confirmed seeded change, each applied to a scratch
# worktree of /repo's HEAD (HV_REPO/HV_OUT: /repo and evidence/ are not touched), JOBS (default 3) changes at a time.
# Writes seeded/RESULTS.txt (with an argument: only the changes whose name starts with it; RESULTS.txt is then
# updated in place).
cd /verif
export GOFLAGS=-mod=mod GOPROXY=off GOSUMDB=off GOTOOLCHAIN=local
jobs=${JOBS:-3}
# snapshot of the machinery (engine binary, contracts, lock files, known findings): the run is not disturbed by work
# going on in /verif meanwhile
snap=$(mktemp -d /tmp/vsnap.XXXX); mkdir -p $snap/bin; cp bin/hv $snap/bin/; cp -r contracts check obligations.lock.json locals.lock.json known_findings.json MANIFEST.json $snap/
res=$(mktemp -d /tmp/seedres.XXXX)
wts=""
cleanup() { for w in $wts; do git -C /repo worktree remove --force $w >/dev/null 2>&1; rm -rf $w.out; done; rm -rf $snap $res; }
trap cleanup EXIT
names=""
for d in seeded/C*/; do
  n=$(basename $d)
  [ -f $d/patch.diff ] || continue
  if [ -n "${1:-}" ] && [[ "$n" != $1* ]]; then continue; fi
  names="$names $n"
done
worker() { # $1 = worker index
  local wt=$2 k=0
  for n in $names; do
    k=$((k+1)); [ $((k % jobs)) -eq $1 ] || continue
    local id=${n%%-*} line
    git -C $wt checkout -q -- . ; git -C $wt clean -fdq
    if ! git -C $wt apply /verif/seeded/$n/patch.diff 2>/dev/null; then line="$n: patch does not apply"; else
      local r=$(HV_REPO=$wt HV_OUT=$wt.out $snap/check $id quick 2>&1)
      if echo "$r" | grep -q "^VIOLATION property=$id"; then
        local obs=$(echo "$r" | grep "^  obligation" | sed 's/^  obligation //' | cut -d' ' -f1-2 | tr '\n' ';' | cut -c1-400)
        local rep=""; echo "$r" | grep "^VIOLATION" | grep -qv "no-failing-input-found" && rep=" REPLAYED"
        line="$n: DETECTED$rep $obs"
      else
        line="$n: MISSED ($(echo "$r" | tail -1))"
      fi
    fi
    echo "$line"; echo "$line" > $res/$n
  done
}
for i in $(seq 0 $((jobs-1))); do
  wt=$(mktemp -d /tmp/seedwt.XXXX); rmdir $wt
  git -C /repo worktree add --detach $wt HEAD >/dev/null 2>&1 || exit 2
  mkdir -p $wt.out; wts="$wts $wt"
  worker $i $wt &
done
wait
out=seeded/RESULTS.txt
if [ -n "${1:-}" ]; then
  for n in $names; do grep -v "^$n:" $out > $out.tmp; mv $out.tmp $out; done
  cat $res/* $out 2>/dev/null | sort > $out.tmp; mv $out.tmp $out
else
  cat $res/* | sort > $out
fi
