#!/bin/bash
# Runs the registered quick check of the property against every confirmed seeded change, each applied to a scratch
# worktree of /repo's HEAD (HV_REPO/HV_OUT: /repo and evidence/ are not touched). Writes seeded/RESULTS.txt
# (with an argument: only the changes whose name starts with it; RESULTS.txt is then updated in place).
cd /verif
export GOFLAGS=-mod=mod GOPROXY=off GOSUMDB=off GOTOOLCHAIN=local
wt=$(mktemp -d /tmp/seedwt.XXXX); rmdir $wt
git -C /repo worktree add --detach $wt HEAD >/dev/null 2>&1 || exit 2
# snapshot of the machinery (engine binary, contracts, lock files, known findings): the run is not disturbed by work
# going on in /verif meanwhile
snap=$(mktemp -d /tmp/vsnap.XXXX); mkdir -p $snap/bin; cp bin/hv $snap/bin/; cp -r contracts check obligations.lock.json locals.lock.json known_findings.json MANIFEST.json $snap/
od=$(mktemp -d /tmp/seedout.XXXX)
trap 'git -C /repo worktree remove --force '$wt' >/dev/null 2>&1; rm -rf '$od' '$snap EXIT
out=seeded/RESULTS.txt; [ -n "${1:-}" ] || : > $out
for d in seeded/C*/; do
  n=$(basename $d); id=${n%%-*}
  [ -f $d/patch.diff ] || continue
  if [ -n "${1:-}" ] && [[ "$n" != $1* ]]; then continue; fi
  git -C $wt checkout -q -- . ; git -C $wt clean -fdq
  if ! git -C $wt apply /verif/$d/patch.diff; then line="$n: patch does not apply"; else
    res=$(HV_REPO=$wt HV_OUT=$od $snap/check $id quick 2>&1)
    if echo "$res" | grep -q "^VIOLATION property=$id"; then
      obs=$(echo "$res" | grep "^  obligation" | sed 's/^  obligation //' | cut -d' ' -f1-2 | tr '\n' ';' | cut -c1-400)
      rep=""; echo "$res" | grep "^VIOLATION" | grep -qv "no-failing-input-found" && rep=" REPLAYED"
      line="$n: DETECTED$rep $obs"
    else
      line="$n: MISSED ($(echo "$res" | tail -1))"
    fi
  fi
  echo "$line"
  if [ -n "${1:-}" ]; then grep -v "^$n:" $out > $out.tmp; echo "$line" >> $out.tmp; sort $out.tmp > $out; rm $out.tmp; else echo "$line" >> $out; fi
done
