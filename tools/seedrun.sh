#!/bin/bash
# Runs the registered quick check of the property against every confirmed seeded change (applied to /repo,
# reverted straight afterwards). Writes seeded/RESULTS.txt.
cd /verif
out=seeded/RESULTS.txt; : > $out
for d in seeded/*/; do
  n=$(basename $d); id=${n%%-*}
  [ -f $d/patch.diff ] || continue
  if [ -n "${1:-}" ] && [[ "$n" != $1* ]]; then continue; fi
  claimed=$(python3 -c "import json;print(any(c['property_id']=='$id' for c in json.load(open('MANIFEST.json'))['checks']))")
  if [ "$claimed" != "True" ]; then echo "$n: property not claimed" | tee -a $out; continue; fi
  git -C /repo apply /verif/$d/patch.diff || { echo "$n: patch does not apply" | tee -a $out; git -C /repo checkout -- .; continue; }
  res=$(./check $id quick 2>&1)
  git -C /repo checkout -- .
  if echo "$res" | grep -q "^VIOLATION property=$id"; then
     obs=$(echo "$res" | grep "^  obligation" | sed 's/^  obligation //' | cut -d' ' -f1-2 | tr '\n' ';' | cut -c1-400)
     echo "$n: DETECTED $obs" | tee -a $out
  else
     echo "$n: MISSED ($(echo "$res" | tail -1))" | tee -a $out
  fi
done
git -C /repo status --short | grep -v '^??' && echo "WARNING: /repo not clean"
