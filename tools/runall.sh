#!/bin/bash
# Runs every registered quick (or $1=thorough) check in turn; prints one line per property.
cd /verif
tier=${1:-quick}
for id in $(python3 -c "import json;print(' '.join(c['property_id'] for c in json.load(open('MANIFEST.json'))['checks']))"); do
  ./check $id $tier | grep -E "^(VIOLATION|KNOWN-FINDING|$id )" | cut -c1-220
done
