#!/bin/bash
# Applies each behaviour-preserving edit of seeded/benign/ to a scratch worktree of /repo (HEAD) and runs every
# registered quick check against that worktree (HV_REPO/HV_OUT: /repo and evidence/ are not touched).
# A VIOLATION here is a false alarm. Writes seeded/benign/RESULTS.txt.
cd /verif
export GOFLAGS=-mod=mod GOPROXY=off GOSUMDB=off GOTOOLCHAIN=local
wt=$(mktemp -d /tmp/benignwt.XXXX); rmdir $wt
git -C /repo worktree add --detach $wt HEAD >/dev/null 2>&1 || exit 2
trap 'git -C /repo worktree remove --force '$wt' >/dev/null 2>&1; rm -rf /tmp/benignout' EXIT
out=seeded/benign/RESULTS.txt; [ -n "${1:-}" ] || : > $out
ids=$(python3 -c "import json;print(' '.join(c['property_id'] for c in json.load(open('MANIFEST.json'))['checks']))")
for p in seeded/benign/[bc]*.diff; do
  n=$(basename $p .diff)
  if [ -n "${1:-}" ] && [[ "$n" != $1* ]]; then continue; fi
  git -C $wt checkout -q -- . ; git -C $wt apply /verif/$p || { echo "$n: patch does not apply" | tee -a $out; continue; }
  alarms=""
  for id in ${2:-$ids}; do
    res=$(HV_REPO=$wt HV_OUT=/tmp/benignout ./check $id quick 2>&1)
    v=$(echo "$res" | grep "^  obligation" | sed 's/^  obligation //' | cut -d' ' -f1-2 | tr '\n' ';')
    [ -n "$v" ] && alarms="$alarms $id{$v}"
  done
  if [ -z "$alarms" ]; then echo "$n: quiet (all checks pass)" | tee -a $out; else echo "$n: FALSE ALARM $alarms" | cut -c1-900 | tee -a $out; fi
done
