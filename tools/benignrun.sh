#!/bin/bash
# Applies each behaviour-preserving edit of seeded/benign/ to a scratch worktree of /repo (HEAD) and runs every
# registered quick check against that worktree (HV_REPO/HV_OUT: /repo and evidence/ are not touched), three
# checks at a time. A VIOLATION here is a false alarm. Writes seeded/benign/RESULTS.txt
# (with an argument: only the edits whose name starts with it; RESULTS.txt is then updated in place).
cd /verif
export GOFLAGS=-mod=mod GOPROXY=off GOSUMDB=off GOTOOLCHAIN=local
wt=$(mktemp -d /tmp/benignwt.XXXX); rmdir $wt
git -C /repo worktree add --detach $wt HEAD >/dev/null 2>&1 || exit 2
# snapshot of the machinery (engine binary, contracts, lock files, known findings): the run is not disturbed by work
# going on in /verif meanwhile
snap=$(mktemp -d /tmp/vsnap.XXXX); mkdir -p $snap/bin; cp bin/hv $snap/bin/; cp -r contracts check obligations.lock.json locals.lock.json known_findings.json MANIFEST.json $snap/
od=$(mktemp -d /tmp/benignout.XXXX)
trap 'git -C /repo worktree remove --force '$wt' >/dev/null 2>&1; rm -rf '$od' '$snap EXIT
out=seeded/benign/RESULTS.txt; [ -n "${1:-}" ] || : > $out
ids=$(python3 -c "import json;print(' '.join(c['property_id'] for c in json.load(open('MANIFEST.json'))['checks']))")
for p in seeded/benign/[bc]*.diff; do
  n=$(basename $p .diff)
  if [ -n "${1:-}" ] && [[ "$n" != $1* ]]; then continue; fi
  git -C $wt checkout -q -- . ; git -C $wt clean -fdq
  if ! git -C $wt apply /verif/$p; then line="$n: patch does not apply"; else
    rm -f $od/*.res
    echo ${2:-$ids} | tr ' ' '\n' | HV_REPO=$wt HV_OUT=$od SNAP=$snap OD=$od xargs -P 3 -I{} sh -c '$SNAP/check {} quick > $OD/{}.res 2>&1'
    alarms=""
    for id in ${2:-$ids}; do
      v=$(grep "^  obligation" $od/$id.res | sed 's/^  obligation //' | cut -d' ' -f1-2 | tr '\n' ';')
      [ -n "$v" ] && alarms="$alarms $id{$v}"
    done
    if [ -z "$alarms" ]; then line="$n: quiet (all checks pass)"; else line=$(echo "$n: FALSE ALARM $alarms" | cut -c1-900); fi
  fi
  echo "$line"
  if [ -n "${1:-}" ]; then grep -v "^$n:" $out > $out.tmp; echo "$line" >> $out.tmp; sort $out.tmp > $out; rm $out.tmp; else echo "$line" >> $out; fi
done
