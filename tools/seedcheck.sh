#!/bin/bash
# tools/seedcheck.sh <src-dir containing patch.diff demo_test.go meta.json> <name>
# Confirms a seeded change in a scratch worktree: demo passes clean, change builds, suite passes, demo fails.
set -u
export GOFLAGS=-mod=mod GOPROXY=off GOSUMDB=off GOTOOLCHAIN=local
src=$1; name=$2
wt=$(mktemp -d /tmp/seedcheck.XXXX); rmdir $wt
git -C /repo worktree add --detach $wt HEAD >/dev/null 2>&1 || exit 2
trap 'git -C /repo worktree remove --force '$wt' >/dev/null 2>&1' EXIT
pkgdir=$(python3 -c "import json;print(json.load(open('$src/meta.json'))['demo_pkg_dir'].strip('./'))")
run=$(python3 -c "import json;print(json.load(open('$src/meta.json'))['demo_run'])")
cd $wt
cp $src/demo_test.go $pkgdir/zz_seed_demo_test.go
r1=$(timeout 300 bash -c "$run" 2>&1 | tail -3); c1=$?
timeout 300 bash -c "$run" >/dev/null 2>&1; c1=$?
rm $pkgdir/zz_seed_demo_test.go
git apply $src/patch.diff || { echo "$name: PATCH DOES NOT APPLY"; exit 1; }
go build ./... >/dev/null 2>&1; cb=$?
timeout 600 go test -vet=off -count=1 ./... >/dev/null 2>&1; cs=$?
cp $src/demo_test.go $pkgdir/zz_seed_demo_test.go
timeout 300 bash -c "$run" >/dev/null 2>&1; c2=$?
echo "$name: demo_clean=$c1 build=$cb suite=$cs demo_mutant=$c2"
if [ $c1 -eq 0 ] && [ $cb -eq 0 ] && [ $cs -eq 0 ] && [ $c2 -ne 0 ]; then
  mkdir -p /verif/seeded/$name && cp $src/patch.diff $src/demo_test.go $src/meta.json /verif/seeded/$name/ && echo "$name: CONFIRMED"
else
  echo "$name: NOT CONFIRMED"
fi
